"""The command line (spec/Cli.tla) bound to smpl_extract/__main__.py.

TLC enumerates every argument vector up to a length over a token alphabet and states, for each, what the specification's
scanner does with it (run ls / run export with which arguments, usage error, help, missing image).  `replay` feeds each
vector to the real `main(argv)` in a scratch directory that holds exactly the files the specification assumes ("img" a
regular file, "dir" a directory) with the two actions replaced by recorders; `end_to_end` runs the vectors that run a
command with the REAL actions on a real AKAI image and compares what they print / write with the same action called
directly."""
from __future__ import annotations

import contextlib
import io
import os
import shutil
from typing import Any, Dict, List, Tuple

from . import tlc, naming, repo
from .core import Check
from .writers import akai as aw

INVARIANTS = ["TypeOK", "RunsWhatWasAsked", "RunsOnlyWhatWasAsked", "MissingImageReported", "HelpOnlyOnRequest"]
LS_A = ["ls", "export", "img", "nofile", "dir", "A/B", "", "wav"]
LS_O = ["-h", "-X", "-d", "-dout"]
EX_A = ["export", "ls", "img", "nofile", "dir", "out", "wav", "flac", ""]
EX_O = ["-d", "--destination", "--destination=out", "-dout", "-f", "-fwav", "-X", "-h"]
SMALL_A = ["ls", "export", "img", "nofile", "wav", ""]
SMALL_O = ["-d", "-dout", "-f", "-X", "-h"]


def model(atok: List[str], otok: List[str], maxlen: int, emit: bool = True, liveness: bool = True) -> Dict[str, Any]:
    return tlc.prepare("Cli", dict(ATok=set(atok), OTok=set(otok), MaxLen=maxlen, EmitCases=emit), spec="Spec",
                       invariants=INVARIANTS + (["Emit"] if emit else []), properties=["Terminates"] if liveness else [])


def image_bytes(seed: int) -> bytes:
    """partition A, volume B: three samples, two of them an L/R pair"""
    case = naming.akai_files_case(["KICK", "SNARE-L", "SNARE-R"], [300, 200, 200])
    case["parts"][0]["vols"][0]["name"] = "B"
    return aw.build_image(case, seed)


@contextlib.contextmanager
def sandbox(work: str, seed: int, real_image: bool):
    d = os.path.join(work, "cwd")
    shutil.rmtree(d, ignore_errors=True)
    os.makedirs(os.path.join(d, "dir"))
    with open(os.path.join(d, "img"), "wb") as fh:
        fh.write(image_bytes(seed) if real_image else b"x")
    old = os.getcwd()
    os.chdir(d)
    try:
        yield d
    finally:
        os.chdir(old)


def call_main(argv: List[str], stub: bool) -> Dict[str, Any]:
    """-> {kind, cmd, image, arg, stdout}; with stub=True the actions only record their arguments"""
    import smpl_extract.__main__ as m
    calls: List[Tuple[str, Any, Any]] = []
    saved = (m.ls_action, m.export_samples_to_wav)
    real_ls, real_ex = saved

    def ls_rec(f, p):
        calls.append(("ls", f, p))
        if not stub:
            real_ls(f, p)

    def ex_rec(f, d):
        calls.append(("export", f, d))
        if not stub:
            real_ex(f, d)
    m.ls_action, m.export_samples_to_wav = ls_rec, ex_rec
    out, err = io.StringIO(), io.StringIO()
    kind, exc = "run", ""
    try:
        with contextlib.redirect_stdout(out), contextlib.redirect_stderr(err):
            m.main(list(argv))
    except SystemExit as e:
        kind = "help" if e.code in (0, None) else "usage" if e.code == 2 else f"exit {e.code}"
    except FileNotFoundError as e:
        kind, exc = ("nofile" if not calls else "run-error"), f"FileNotFoundError: {e}"
    except OSError as e:
        kind, exc = ("notfile" if not calls else "run-error"), f"{type(e).__name__}: {e}"
    except BaseException as e:  # noqa
        kind, exc = "run-error" if calls else "crash", f"{type(e).__name__}: {e}"
    finally:
        m.ls_action, m.export_samples_to_wav = saved
    if kind in ("run", "run-error"):
        if len(calls) != 1:
            return {"kind": f"{len(calls)} actions", "cmd": None, "image": None, "arg": None, "stdout": out.getvalue(), "exc": exc}
        c = calls[0]
        return {"kind": "run", "cmd": c[0], "image": c[1], "arg": c[2], "stdout": out.getvalue(), "exc": exc}
    return {"kind": kind if not calls else f"{kind} after {calls}", "cmd": None, "image": None, "arg": None, "stdout": out.getvalue(), "exc": exc}


def norm_arg(cmd: str, arg) -> str:
    """arguments that mean the same to the actions compare equal: a destination by its normalised path ('' = '.'), an
    internal path without surrounding separators and blanks (C10)"""
    if not isinstance(arg, str):
        return repr(arg)
    if cmd == "export":
        return os.path.normpath(arg or ".")
    return arg.strip().strip("/\\").strip()


ERRORS = ("usage", "nofile", "notfile")


def same(spec_out: Dict[str, Any], got: Dict[str, Any], valid: bool = True, argv: List[str] = ()) -> bool:
    """A vector the specification runs must run exactly so, and nothing else may run.  Among the vectors that do not run,
    WHICH complaint comes first (usage / missing image / help) is part of the contract only for vectors that are
    well-formed apart from the missing image or that ask for help and nothing else; for malformed vectors any refusal will do."""
    if spec_out["kind"] == "run" or got["kind"] == "run":
        return (spec_out["kind"] == got["kind"] and spec_out["cmd"] == got["cmd"]
                and spec_out["image"] == (os.path.normpath(got["image"]) if isinstance(got["image"], str) else got["image"])
                and norm_arg(spec_out["cmd"], spec_out["arg"]) == norm_arg(spec_out["cmd"], got["arg"]))
    if spec_out["kind"] == got["kind"]:
        return True
    refusals = ERRORS + ("help",)
    if got["kind"] not in refusals:
        return False                                   # a crash, two actions, ...
    if spec_out["kind"] in ("nofile", "notfile") and valid:
        return False
    if spec_out["kind"] == "help" and all(t in ("-h", "--help", "img", "ls", "export") for t in argv):
        return False
    return True


def replay(chk: Check, cases: List[Dict[str, Any]], work: str, label: str):
    """every TLC case through the real main() with recording actions"""
    kinds: Dict[str, int] = {}
    with sandbox(work, chk.seed, real_image=False):
        for c in cases:
            argv, want = list(c["argv"]), c["out"]
            got = call_main(argv, stub=True)
            chk.evaluated(("cli", label, tuple(argv)), nontrivial=want["kind"] == "run" or len(argv) >= 2)
            kinds[want["kind"]] = kinds.get(want["kind"], 0) + 1
            if same(want, got, c.get("valid", False), argv):
                chk.agree()
            else:
                exp = f"{want['cmd']}({want['image']!r}, {want['arg']!r})" if want["kind"] == "run" else want["kind"]
                act = f"{got['cmd']}({got['image']!r}, {got['arg']!r})" if got["kind"] == "run" else got["kind"] + (" " + got["exc"] if got["exc"] else "")
                chk.violation({"cli": label, "argv": argv, "spec": want}, f"command line {argv}: the specification says {exp}, the tool did {act}")
    chk.extra.setdefault("cli", {})[label] = {"vectors": len(cases), "by_outcome": kinds}


def tree(d: str) -> Dict[str, bytes]:
    res = {}
    for root, _, files in os.walk(d):
        for f in files:
            p = os.path.join(root, f)
            with open(p, "rb") as fh:
                res[os.path.relpath(p, d)] = fh.read()
    return res


def end_to_end(chk: Check, cases: List[Dict[str, Any]], work: str, cmd: str, limit: int):
    """vectors that run `cmd`, with the real actions on a real image: the listing printed / the files written are those of
    the action called directly with the declared arguments, and an export writes nothing outside its destination"""
    runs = [c for c in cases if c["out"]["kind"] == "run" and c["out"]["cmd"] == cmd]
    # one vector per distinct (argument, shape of the vector), short ones first
    seen, picked = set(), []
    for c in sorted(runs, key=lambda c: (len(c["argv"]), c["argv"])):
        shape = (c["out"]["arg"], tuple(t for t in c["argv"] if t.startswith("-")))
        if shape not in seen:
            seen.add(shape)
            picked.append(c)
    for c in picked[:limit]:
        argv, want = list(c["argv"]), c["out"]
        with sandbox(work, chk.seed, real_image=True) as cwd:
            before = tree(cwd)
            got = call_main(argv, stub=False)
            after = tree(cwd)
            chk.evaluated(("cli-e2e", cmd, tuple(argv)), nontrivial=True)
            problems = []
            if not same(want, got, True, argv):
                problems.append(f"routed to {got['kind']} {got['cmd']}({got['image']!r}, {got['arg']!r})")
            if cmd == "ls":
                try:
                    direct = repo.ls(os.path.join(cwd, "img"), want["arg"])
                except BaseException as e:  # noqa
                    direct = f"EXC {type(e).__name__}"
                if got["stdout"] != direct and not (got["exc"] and direct.startswith("EXC")):
                    problems.append(f"printed {got['stdout'][:200]!r}, the action called directly prints {direct[:200]!r}")
                if after != before:
                    problems.append(f"ls changed the directory: {sorted(set(after) ^ set(before))[:5]}")
            else:
                ref = os.path.join(work, "ref")
                shutil.rmtree(ref, ignore_errors=True)
                try:
                    repo.export(os.path.join(cwd, "img"), ref)
                    ref_tree = tree(ref)
                except BaseException as e:  # noqa
                    ref_tree = None
                new = {k: v for k, v in after.items() if k not in before or before[k] != v}
                dest = os.path.normpath(want["arg"] or ".")
                outside = [k for k in new if dest != "." and not os.path.normpath(k).startswith(dest + os.sep)]
                if outside:
                    problems.append(f"files written outside the destination {want['arg']!r}: {outside[:5]}")
                if not got["exc"] and ref_tree is not None:
                    rel = {os.path.relpath(k, dest): v for k, v in new.items()}
                    if rel != ref_tree:
                        problems.append(f"files under {want['arg']!r}: {sorted(rel)[:6]}; the action called directly writes {sorted(ref_tree)[:6]} (or bytes differ)")
                    if not ref_tree:
                        problems.append("the reference export wrote nothing (harness image broken)")
            if problems:
                chk.violation({"cli": "e2e", "argv": argv, "spec": want}, f"command line {argv} (real actions): " + "; ".join(problems))
            else:
                chk.agree()
    chk.extra.setdefault("cli", {})[f"end_to_end_{cmd}"] = len(picked[:limit])


def check(chk: Check, cmd: str):
    """the command-line part of a check: Cli.tla model-checked, every vector replayed into main(), the vectors that run
    `cmd` executed with the real actions"""
    thorough = chk.tier == "thorough"
    work = tlc.scratch_dir("cli_")
    old = os.getcwd()
    try:
        atok, otok = (LS_A, LS_O) if cmd == "ls" else (EX_A, EX_O)
        res = chk.run_model(model(atok, otok, 4 if thorough else 3), label=f"design: command line, every vector of <= {4 if thorough else 3} of {len(atok) + len(otok)} tokens ({cmd} alphabet)")
        replay(chk, res.cases, work, cmd)
        end_to_end(chk, res.cases, work, cmd, 60 if thorough else 24)
        # longer vectors over a smaller alphabet: options before the command, repeated options, the last -d wins
        res = chk.run_model(model(SMALL_A, SMALL_O, 5 if thorough else 4, liveness=not thorough), label=f"design: command line, every vector of <= {5 if thorough else 4} of {len(SMALL_A) + len(SMALL_O)} tokens")
        replay(chk, res.cases, work, cmd + "-long")
    finally:
        os.chdir(old)
        shutil.rmtree(work, ignore_errors=True)
