"""Check context: verdicts, known findings, evidence, replay files."""
from __future__ import annotations

import hashlib
import json
import os
import sys
import time
from typing import Any, Callable, Dict, List, Optional

from . import tlc

ROOT = os.path.dirname(os.path.dirname(os.path.abspath(__file__)))
REPO = os.environ.get("VERIF_REPO", "/repo")
GUARD = "SMPL_EXTRACT_VERIF"


def load_findings() -> List[Dict[str, Any]]:
    with open(os.path.join(ROOT, "known_findings.json")) as fh:
        return json.load(fh)["findings"]


class Check:
    """One invocation of one property check.

    * tlc results are accumulated (states / transitions / coverage / commands);
    * conformance results are counted by `agree()` (code agreed with the specification on a case)
      and `violation()` (the property's own predicate is false on a case);
    * a violation tagged with the id of an *open* entry of known_findings.json is reported as
      KNOWN-FINDING and does not fail the check; anything else prints VIOLATION and exits 1;
    * `drift()` records code/spec differences that do not contradict the property statement.
    """

    def __init__(self, prop: str, tier: str, seed: int, level: str = "model_checking"):
        self.prop, self.tier, self.seed, self.level = prop, tier, seed, level
        self.t0 = time.time()
        self.tlc_runs: List[Dict[str, Any]] = []
        self.states = 0
        self.transitions = 0
        self.coverage: Dict[str, int] = {}
        self.evaluations = 0
        self.agreed = 0
        self.nontrivial: set = set()
        self.samples: List[Any] = []
        self.violations: List[Dict[str, Any]] = []
        self.findings_hit: Dict[str, Dict[str, Any]] = {}
        self.drifts: Dict[str, int] = {}
        self.extra: Dict[str, Any] = {}
        self.assumptions: List[str] = []
        self.rule = ""
        self.exhaustive = False
        self.machinery_errors: List[str] = []
        self.findings = [f for f in load_findings() if prop in f["properties"]]
        self.open = {f["id"]: f for f in self.findings if f["status"] == "open"}

    # ---- TLC -------------------------------------------------------------------------------
    def run_tlc(self, module: str, cfg: str, *, expect_ok: bool = True, label: str = "", **kw) -> tlc.TlcResult:
        res = tlc.run(module, cfg, **kw)
        self.states += res.distinct
        self.transitions += res.generated
        for k, v in res.coverage.items():
            self.coverage[f"{module}.{k}"] = self.coverage.get(f"{module}.{k}", 0) + v
        self.tlc_runs.append({"label": label or module, "cmd": res.cmd, "generated": res.generated,
                              "distinct": res.distinct, "depth": res.depth, "wall_s": round(res.wall_s, 2),
                              "verdict": "ok" if res.ok else f"violated:{res.violated}",
                              "cases": len(res.cases)})
        if expect_ok and not res.ok:
            # the design-level specification itself violates a listed invariant: that is a
            # machinery problem (spec wrong) unless the caller handles it explicitly.
            tail = "\n".join(res.output.splitlines()[-60:])
            raise tlc.TlcError(f"specification {module} ({label}) violates {res.violated}:\n{tail}")
        return res

    def run_model(self, prepared: Dict[str, Any], **kw) -> tlc.TlcResult:
        files = dict(prepared.get("files") or {})
        files.update(kw.pop("files", None) or {})
        return self.run_tlc(prepared["module"], prepared["cfg"], files=files, **kw)

    def require_coverage(self, module: str, actions: List[str]):
        for a in actions:
            if self.coverage.get(f"{module}.{a}", 0) <= 0:
                raise tlc.TlcError(f"vacuity guard: action {module}.{a} was never taken")

    # ---- conformance -----------------------------------------------------------------------
    def evaluated(self, case_key: Any = None, nontrivial: bool = True):
        self.evaluations += 1
        if nontrivial and case_key is not None:
            self.nontrivial.add(case_key if isinstance(case_key, (str, int, tuple)) else _h(case_key))

    def agree(self, n: int = 1):
        self.agreed += n

    def sample(self, s: Any, limit: int = 6):
        if len(self.samples) < limit:
            self.samples.append(s)

    def drift(self, kind: str):
        self.drifts[kind] = self.drifts.get(kind, 0) + 1

    def violation(self, case: Dict[str, Any], what: str, finding: Optional[str] = None):
        """Record a property violation on `case`; `finding` is the id of the known finding whose
        match predicate (evaluated by the specification / case generator) holds for this case."""
        if finding and finding in self.open:
            ent = self.findings_hit.setdefault(finding, {"count": 0, "example": None})
            ent["count"] += 1
            if ent["example"] is None:
                ent["example"] = {"what": what, "case": _shorten(case)}
            return
        self.violations.append({"what": what, "case": case, "finding_tag": finding})

    # ---- finish ----------------------------------------------------------------------------
    def finish(self) -> int:
        wall = time.time() - self.t0
        for fid, ent in sorted(self.findings_hit.items()):
            f = self.open[fid]
            print(f"KNOWN-FINDING: property={self.prop} {fid} {f['what']} (met {ent['count']}x)")
        rc = 0
        replay_paths = []
        if self.violations:
            rc = 1
            os.makedirs(os.path.join(ROOT, "replays"), exist_ok=True)
            seen = set()
            for v in self.violations[:20]:
                path = os.path.join(ROOT, "replays", f"{self.prop}-{_h(v['case'])[:12]}.json")
                if path in seen:
                    continue
                seen.add(path)
                with open(path, "w") as fh:
                    json.dump({"property": self.prop, "what": v["what"], "case": v["case"]}, fh, indent=1, default=str)
                replay_paths.append(path)
                print(f"VIOLATION property={self.prop} replay={path}")
                print(f"  what: {v['what'][:400]}")
        cov = {
            "states": max(self.states, 0),
            "transitions": max(self.transitions, 0),
            "traces_validated_against_impl": self.agreed,
            "samples": self.samples or [{"note": "no case sampled"}],
            "evaluations": self.evaluations,
            "distinct_nontrivial": len(self.nontrivial),
            "rule": self.rule,
            "exhaustive": self.exhaustive,
            "tlc_runs": self.tlc_runs,
            "action_coverage": self.coverage,
            "model_drift": self.drifts,
            "known_findings_met": {k: v for k, v in self.findings_hit.items()},
            "violation_replays": replay_paths,
            "checker_cmd": "; ".join(r["cmd"] for r in self.tlc_runs[:4]),
        }
        cov.update(self.extra)
        ev = {
            "property_id": self.prop,
            "tier": self.tier,
            "seed": self.seed,
            "level": self.level,
            "coverage": cov,
            "assumptions": self.assumptions,
            "wall_s": round(wall, 2),
            "violations": len(self.violations),
        }
        os.makedirs(os.path.join(ROOT, "evidence"), exist_ok=True)
        with open(os.path.join(ROOT, "evidence", f"{self.prop}.json"), "w") as fh:
            json.dump(ev, fh, indent=1, default=str)
        print(f"[{self.prop}] tier={self.tier} seed={self.seed} states={self.states} transitions={self.transitions} "
              f"cases={self.evaluations} agreed={self.agreed} violations={len(self.violations)} "
              f"known={sum(v['count'] for v in self.findings_hit.values())} drift={sum(self.drifts.values())} "
              f"wall={wall:.1f}s")
        return rc


def _h(obj: Any) -> str:
    return hashlib.sha1(json.dumps(obj, sort_keys=True, default=str).encode()).hexdigest()


def _shorten(obj: Any, limit: int = 600) -> Any:
    s = json.dumps(obj, default=str)
    return obj if len(s) <= limit else s[:limit] + "..."


def case_hash(obj: Any) -> str:
    return _h(obj)
