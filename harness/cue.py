"""Rendering of Cue.tla's abstract lines to text, bin files, and observation of the real parser."""
from __future__ import annotations

import os
import random
from typing import Any, Dict, List

STYLES = [dict(case="upper", lead="", trail=""), dict(case="lower", lead="  ", trail=""),
          dict(case="title", lead="\t", trail="  "), dict(case="upper", lead="    ", trail=" \t"),
          dict(case="mixed", lead=" ", trail="")]


def _kw(word: str, case: str, rnd: random.Random) -> str:
    if case == "upper":
        return word.upper()
    if case == "lower":
        return word.lower()
    if case == "title":
        return word.title()
    return "".join(ch.upper() if rnd.random() < 0.5 else ch.lower() for ch in word)


def render_line(l: Dict[str, Any], style: Dict[str, str], rnd: random.Random, sep: str = " ") -> str:
    c = l["c"]
    k = lambda w: _kw(w, style["case"], rnd)
    if c == "FILE":
        body = f'{k("FILE")}{sep}"{l["b"]}"{sep}{k("BINARY")}'
    elif c == "TRACK":
        body = f'{k("TRACK")}{sep}{l["a"]:02d}{sep}{l["b"] if style["case"] == "upper" else _kw(l["b"], style["case"], rnd)}'
    elif c == "INDEX":
        body = f'{k("INDEX")}{sep}{l["a"]:02d}{sep}{l["m"]:02d}:{l["s"]:02d}:{l["f"]:02d}'
    elif c == "TITLE":
        body = f'{k("TITLE")}{sep}"{l["b"]}"'
    elif c == "OTHER":
        body = l["b"]
    else:
        return style["trail"]
    return style["lead"] + body + style["trail"]


def render(lines: List[Dict[str, Any]], style_idx: int = 0, seed: int = 0) -> List[str]:
    st = STYLES[style_idx % len(STYLES)]
    rnd = random.Random(seed)
    sep = [" ", "  ", "\t", " \t "][style_idx % 4]
    return [render_line(l, st, rnd, sep) + "\n" for l in lines]


def bin_bytes(n: int, seed: int) -> bytes:
    return random.Random(f"bin{seed}").randbytes(n)


def observe_meaning(text_lines: List[str]) -> Dict[str, Any]:
    """What the real parser makes of the text, projected to the specification's Meaning record."""
    from smpl_extract.cuesheet import BadCueSheet, parse_cue_sheet
    try:
        cs = parse_cue_sheet(list(text_lines))
    except BadCueSheet:
        return {"bad": True, "bin": "", "tracks": []}
    return {"bad": False, "bin": cs.bin_file_name,
            "tracks": [{"num": t.number, "mode": t.mode.upper(), "title": t.title or "", "titled": t.title is not None,
                        "indices": [[i.number, i.n_minutes, i.n_seconds, i.n_frames] for i in t.indices]} for t in cs.tracks]}


def write_pair(work: str, text_lines: List[str], binlen: int, seed: int, bin_name: str = "image.bin", bin_data: bytes = None):
    os.makedirs(work, exist_ok=True)
    data = bin_data if bin_data is not None else bin_bytes(binlen, seed)
    with open(os.path.join(work, bin_name), "wb") as fh:
        fh.write(data)
    cue = os.path.join(work, "image.cue")
    with open(cue, "w", encoding="ascii", newline="") as fh:
        fh.writelines(text_lines)
    return cue, data
