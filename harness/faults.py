"""Fault sites of generated images (for C13 / C14): where a structural value lives in the bytes and which values to try.
The enumeration of fault SEQUENCES is TLC's (spec/Faults.tla); this module only knows offsets and candidate values."""
from __future__ import annotations

import multiprocessing as mp
import os
import resource
import shutil
import struct
import tempfile
from typing import Any, Callable, Dict, List, Tuple

from .writers.fields import LAYOUTS, ROLAND_AREAS as A, field
from . import repo


class Site:
    def __init__(self, name: str, offsets: List[int], width: int, values: List[int], kind: str = "int", keep: bool = False):
        self.name, self.offsets, self.width, self.values, self.kind = name, offsets, width, values, kind
        self.keep = keep              # quick tiers never sub-sample this site's values

    def patch(self, buf: bytearray, vi: int):
        v = self.values[vi]
        b = v if isinstance(v, (bytes, bytearray)) else int(v).to_bytes(self.width, "little")
        for k, o in enumerate(self.offsets):
            if o < len(buf):
                buf[o] = b[k]


def uniq(xs):
    out = []
    for x in xs:
        if x not in out:
            out.append(x)
    return out


def phys_offsets(chain: List[int], S: int, logical: int, width: int, base: int = 0) -> List[int]:
    return [base + chain[(logical + k) // S] * S + (logical + k) % S for k in range(width) if (logical + k) // S < len(chain)]


def akai_sites(case: Dict[str, Any]) -> List[Site]:
    S, nsect = case["S"], case["nsect"]
    sites: List[Site] = []
    for pi, part in enumerate(case["parts"]):
        base = pi * nsect * S
        used = sorted({s for s, _ in part["sat"]})
        links = [x for x in range(1, nsect + 1)]
        sites.append(Site(f"p{pi}.size", [base, base + 1], 2, uniq([0, 1, 2, 3, nsect - 1, nsect + 1, 65535])))
        sites.append(Site(f"p{pi}.magic0", [base + 4], 1, [0, 255]))
        for vi, v in enumerate(part["vols"]):
            vb = base + 202 + 16 * vi
            sites.append(Site(f"p{pi}.vol{vi}.name0", [vb], 1, [0x29, 0xFF, 10]))
            sites.append(Site(f"p{pi}.vol{vi}.type", [vb + 12, vb + 13], 2, [0, 1, 2, 3, 0xFFFF]))
            sites.append(Site(f"p{pi}.vol{vi}.start", [vb + 14, vb + 15], 2, uniq([0, 1, 2] + used + [nsect, 11385, 11386, 65535])))
            nblank = v.get("blanks", 0)
            for fi, f in enumerate(v["files"]):
                lo = (nblank + fi) * 24
                P = lambda off, w: phys_offsets(v["dir"], S, lo + off, w, base)
                sites.append(Site(f"p{pi}.vol{vi}.file{fi}.name0", P(0, 1), 1, [0x29, 0xFF]))
                sites.append(Site(f"p{pi}.vol{vi}.file{fi}.type", P(16, 1), 1, [0, 0x64, 0x70, 0x73, 0xF0, 0xF3, 0xFF]))
                sites.append(Site(f"p{pi}.vol{vi}.file{fi}.size", P(17, 3), 3, [0, 1, 139, 140, 141, 8192, 0xFFFFFF]))
                sites.append(Site(f"p{pi}.vol{vi}.file{fi}.start", P(20, 2), 2, uniq([0, 1] + used + [nsect, 11386, 65535])))
                hb = base + f["chain"][0] * S
                if f["ftype"] in (0x70, 0xF0):          # program: keygroup count, chain addresses, zone count
                    for lay, at, nm, vals in (("akai_program_header", 0, "number_of_keygroups", [0, 2, 7, 255]),
                                              ("akai_program_header", 0, "first_keygroup_address", [0, 1, 71, 72, 149, 151, 5000, 65535]),
                                              ("akai_keygroup_head", 150, "next_keygroup_address", [1, 149, 150, 151, 300, 8000, 65535]),
                                              ("akai_keygroup_head", 150, "num_velocity_zones", [0, 1, 5, 255])):
                        fl = field(lay, nm)
                        sites.append(Site(f"p{pi}.vol{vi}.file{fi}.prog.{nm}", [hb + at + fl["off"] + k for k in range(fl["width"])], fl["width"], vals))
                    continue
                for nm, vals in (("id", [0, 2, 255]), ("loop_type", [0, 1, 5, 255]), ("samples_cnt", [0, 1, 2 ** 31, 2 ** 32 - 1]),
                                 ("play_start", [1, 2 ** 31, 2 ** 32 - 1]), ("play_end", [0, 1, 2 ** 32 - 1]), ("sampling_rate", [0, 1, 65535]),
                                 ("note_pitch", [0, 20, 255])):
                    fl = field("akai_sample_header", nm)
                    sites.append(Site(f"p{pi}.vol{vi}.file{fi}.hdr.{nm}", [hb + fl["off"] + k for k in range(fl["width"])], fl["width"], vals))
            em = (nblank + len(v["files"])) * 24 + 8
            sites.append(Site(f"p{pi}.vol{vi}.endmark", phys_offsets(v["dir"], S, em, 2, base), 2, [0, 0x1234]))
        sb = base + 202 + 1600
        for k in uniq(list(range(0, 3)) + used + [nsect, nsect + 1]):
            sites.append(Site(f"p{pi}.sat{k}", [sb + 2 * k, sb + 2 * k + 1], 2,
                              uniq([0, 0x4000, 0x8000, 0xC000] + links + [k, 11385, 11386, 0x3000, 0xFFFF])))
    return sites


def roland_sites(case: Dict[str, Any]) -> List[Site]:
    img, ncl = case["img"], case["nclusters"]
    spread = bool(img.get("spread"))
    sl = (lambda k: k if (not spread or k == 0) else k + 4)       # logical number -> record index (see writers/roland.py)
    sites: List[Site] = []
    used = sorted({c for c, _ in case["fat"]})
    links = list(range(2, ncl + 1))
    for k in uniq([2, 3] + used + [ncl, ncl + 1, 65526, 65527, 65534, 65535, 0, 1]):
        sites.append(Site(f"fat{k}", [A["fat"] + 2 * k, A["fat"] + 2 * k + 1], 2,
                          uniq([0, 1, 0xFFF7, 0xFFF8, 0xFFFF, 0xFFFE, 0xFFFA] + links + [k, 60000])))
    ida = {f["name"]: f for f in LAYOUTS["roland_id_area"]}
    for nm in ("num_volumes", "num_performances", "num_samples"):
        sites.append(Site(f"id.{nm}", [ida[nm]["off"], ida[nm]["off"] + 1], 2, [0, 1, 2, 128, 129, 65535]))
    sites.append(Site("id.s7xx", [ida["s7xx_str"]["off"]], 1, [0, 0xFF]))
    ptrs = [0, 1, 2, 63, 64, 511, 512, 1023, 1024, 4095, 4096, 8191, 8192, 32767, 0xFFFF, 0x8000]
    for i, v in enumerate(img["vols"]):
        o = A["volume_param"] + 0x100 * i + 32
        for j in range(min(3, 64)):
            sites.append(Site(f"vol{i}.perf_ptr{j}", [o + 2 * j, o + 2 * j + 1], 2, ptrs))
        sites.append(Site(f"vol{i}.dirname0", [A["volume_dir"] + 32 * i], 1, [0x80, 0xFF, 0]))
    for i0, p in enumerate(img["perfs"]):
        i = sl(i0)
        o = A["performance_param"] + 0x200 * i + field("roland_performance_param", "patch_list")["off"]
        for j in range(3):
            sites.append(Site(f"perf{i}.patch_ptr{j}", [o + 2 * j, o + 2 * j + 1], 2, ptrs))
        sites.append(Site(f"perf{i}.dir.type", [A["performance_dir"] + 32 * i + 16], 1, [0, 0x40, 0x44, 0xFF]))
    for i0, p in enumerate(img["patches"]):
        i = sl(i0)
        o = A["patch_param"] + 0x200 * i + field("roland_patch_param", "partial_list")["off"]
        for j in (0, 1, 87):
            sites.append(Site(f"patch{i}.partial_ptr{j}", [o + 2 * j, o + 2 * j + 1], 2, ptrs))
    for i0, p in enumerate(img["partials"]):
        i = sl(i0)
        for slot in ("sample_1", "sample_2", "sample_4"):
            o = A["partial_param"] + 0x80 * i + field("roland_partial_param", slot)["off"]
            sites.append(Site(f"partial{i}.{slot}", [o, o + 1], 2, ptrs))
    for i0, s in enumerate(img["samples"]):
        i = sl(i0)
        d = A["sample_dir"] + 32 * i
        sites.append(Site(f"sample{i}.dir.fat_entry", [d + 28, d + 29], 2, uniq([0, 1, 2] + used + [ncl, 65535])))
        sites.append(Site(f"sample{i}.dir.name0", [d], 1, [0x80, 0]))
        pb = A["sample_param"] + 0x30 * i
        for nm, vals in (("start_sample", [0xFFFFFFFF, 0x7FFFFF00]), ("sustain_loop_end", [0, 0xFFFFFFFF, 0x00FFFF00]),
                         ("release_loop_end", [0, 0xFFFFFFFF]), ("loop_mode", [1, 5, 6, 7, 255]), ("cluster_top", [1, 2, 65535]),
                         ("sample_options", [0x06, 0x1F, 0xFF]), ("original_key", [0, 20, 255])):
            fl = field("roland_sample_param", nm)
            sites.append(Site(f"sample{i}.{nm}", [pb + fl["off"] + k for k in range(fl["width"])], fl["width"], vals))
    return sites


def apply(image: bytes, sites: List[Site], faults: List[List[int]]) -> bytes:
    buf = bytearray(image)
    for s, v in faults:
        sites[s - 1].patch(buf, v - 1)
    return bytes(buf)


# ---- running the tool on a (damaged) image under limits -----------------------------------------------
def tool_run(path: str, ls_paths: List[str], dest: str) -> Dict[str, Any]:
    """everything a user could ask of the image: ls at the given levels and an export; exceptions are results"""
    res = {"ls": {}, "export": None}
    for p in ls_paths:
        try:
            res["ls"][p] = repo.ls(path, p)
        except MemoryError:          # running into the address-space limit is the observation, not an error message of the tool
            raise
        except BaseException as e:  # noqa
            res["ls"][p] = f"EXC {type(e).__name__}"
    try:
        lines = repo.export(path, dest)
        res["export"] = sorted(lines)
    except MemoryError:
        raise
    except BaseException as e:  # noqa
        res["export"] = f"EXC {type(e).__name__}"
    return res


def limits_for(size: int) -> Tuple[float, int]:
    """CPU seconds and address-space MB allowed for an image of `size` bytes: affine in the size, generous"""
    return 10.0 + 20e-6 * size, 1536 + (64 * size >> 20)


def preload():
    """import the tool in THIS process so that forked children start with it loaded (the import costs 0.4 s, a probe 2 ms)"""
    from . import repo as _r  # noqa: F401  (puts REPO on sys.path)
    import smpl_extract.actions  # noqa: F401


def probe(data: bytes, ls_paths: List[str], suffix: str = ".img", extra_files: Dict[str, bytes] = None) -> repo.ChildResult:
    d = tempfile.mkdtemp(prefix="probe_")
    try:
        p = os.path.join(d, "image" + suffix)
        with open(p, "wb") as fh:
            fh.write(data)
        for name, b in (extra_files or {}).items():
            with open(os.path.join(d, name), "wb") as fh:
                fh.write(b)
        cpu, mem = limits_for(len(data) + sum(len(b) for b in (extra_files or {}).values()))
        preload()
        return repo.run_child(lambda: tool_run(p, ls_paths, os.path.join(d, "out")), cpu_s=cpu, mem_mb=mem, wall_s=cpu * 2 + 10)
    finally:
        shutil.rmtree(d, ignore_errors=True)


_FN = None
_ITEMS: List[Any] = []


def _worker(idxs):
    # the tool never closes the image file it opens; its objects are cyclic, so the descriptors go only when the collector
    # runs: collect regularly and lift the soft descriptor limit, or a long-lived worker runs out of descriptors
    import gc
    try:
        soft, hard = resource.getrlimit(resource.RLIMIT_NOFILE)
        resource.setrlimit(resource.RLIMIT_NOFILE, (hard if hard != resource.RLIM_INFINITY else 65536, hard))
    except Exception:
        pass
    out = []
    for n, i in enumerate(idxs):
        out.append(_FN(_ITEMS[i]))
        if n % 25 == 24:
            gc.collect()
    return out


def parallel(fn: Callable, items: List[Any], procs: int = 12) -> List[Any]:
    """run fn over items in `procs` forked worker processes (each may fork probes itself); fn and items are inherited
    through fork, only indices and results cross process boundaries"""
    global _FN, _ITEMS
    if not items:
        return []
    procs = max(1, min(procs, len(items)))
    preload()
    _FN, _ITEMS = fn, items
    chunks = [list(range(i, len(items), procs)) for i in range(procs)]
    ctx = mp.get_context("fork")
    with ctx.Pool(procs) as pool:
        parts = pool.map(_worker, chunks)
    out = [None] * len(items)
    for ch, part in zip(chunks, parts):
        for i, r in zip(ch, part):
            out[i] = r
    return out
