"""spec/Listing.tla bound to smpl_extract/info.py InfoTree: every item of the specification's universe is rendered by the
real printer with the same page width and row cap, and the text must be the specification's lines."""
from __future__ import annotations

import random
from typing import Any, Dict, List

from . import tlc, repo  # noqa: F401  (repo puts the implementation on sys.path)
from .core import Check

INVARIANTS = ["TypeOK", "RowsAreFlat", "RowsGrowInOrder", "LinesFaithful", "CapAnnounced"]


def seq(s: str):
    return tuple(s)


def model(depth: int = 2, emit: bool = True, off_by_one: bool = True) -> Dict[str, Any]:
    consts = dict(Keys={seq("a"), seq("key")}, Leaves={seq(""), seq("v"), seq("longer x")}, MaxEntries=2, Depth=depth,
                  Widths={9, 80}, Caps={4, 300}, OffByOneCap=off_by_one, EmitCases=emit)
    return tlc.prepare("Listing", consts, spec="Spec", invariants=INVARIANTS + (["Emit"] if emit else []), properties=["Terminates"])


def to_py(it: Dict[str, Any]):
    if it["t"] == "s":
        return "".join(it["v"])
    if it["t"] == "m":
        return {"".join(e["key"]): to_py(e["x"]) for e in it["v"]}
    return [to_py(x) for x in it["v"]]


def flat_rows(item, prev: str = "") -> List[tuple]:
    """(key text, value text or None) of every row, depth first - the declarative Flat of Listing.tla on Python values"""
    out = []
    pairs = item.items() if isinstance(item, dict) else [(f"{prev}[{i}]", v) for i, v in enumerate(item)]
    for k, v in pairs:
        if isinstance(v, str):
            out.append((k, v))
        else:
            out.append((k, None))
            out += flat_rows(v, k)
    return out


def tree_loses(rows: List[tuple], lines: List[str]) -> str:
    """property-level reading of a printed leaf listing: every row's key (and value) must appear, in order, on a line of its
    own - whole, or cut with a visible mark - unless the listing announces that it was capped.  -> '' or what is lost"""
    announced = any("exceeded" in l or "(...)" in l for l in lines)
    shown = sum(1 for l in lines if ":" in l or l.rstrip().endswith("..."))
    if shown < len(rows) and not announced:
        return f"{len(rows)} rows to state, {shown} lines printed, and no cap is announced"
    j = 0
    for n, (k, v) in enumerate(rows):
        found = False
        while j < len(lines):
            l = lines[j]
            j += 1
            whole = (k + ":") in l and (v is None or v == "" or v in l.split(k + ":", 1)[1])
            cut = l.rstrip().endswith("...") and ((k + ":") in l or (k + ":").startswith(l.strip()[:-3].strip()) or l.strip()[:-3].strip() in (k + ":"))
            if whole or cut:
                found = True
                break
        if not found:
            return "" if announced else f"row {n + 1} ({k!r}: {v!r}) is not printed, not marked as cut, and no cap is announced"
    return ""


def check(chk: Check, budget: int):
    from smpl_extract.info import InfoTree
    res = chk.run_model(model(), label="design: flattening, cutting and capping of a leaf listing (every item of nesting <= 2)")
    cases = sorted(res.cases, key=lambda c: repr(c))
    rng = random.Random(chk.seed + 77)
    rng.shuffle(cases)
    capped = [c for c in cases if c["shown"] < c["nrows"]]
    cut = [c for c in cases if any(l[-3:] == [".", ".", "."] for l in c["lines"])]
    picked = capped[: budget // 4] + cut[: budget // 4] + cases[:budget]
    n = 0
    for c in picked:
        item = to_py(c["item"])
        want = ["".join(l) for l in c["lines"]]
        if c["shown"] < c["nrows"]:
            want[-1] = f"(...) exceeded {c['cap']} lines"
        got = InfoTree(("Item", "Val"), item, total_width=c["width"], max_rows=c["cap"]).to_string()
        chk.evaluated(("listing", repr(item), c["width"], c["cap"]), nontrivial=c["nrows"] > 0)
        n += 1
        if got == "".join(l + "\n" for l in want):
            chk.agree()
            continue
        # not the specification's text: is it still a listing that states every value (C20), or does it lose something?
        lost = tree_loses(flat_rows(item), got.splitlines())
        if lost:
            chk.violation({"listing": item, "width": c["width"], "cap": c["cap"]},
                          f"leaf listing of {item!r} (page width {c['width']}, cap {c['cap']}): {lost}; the specification prints {want}, the tool printed {got.splitlines()}")
        else:
            chk.drift("listing_layout_differs_from_Listing_tla")
    chk.extra["listing"] = {"universe": len(cases), "replayed": n, "capped": len(capped), "with_cut_lines": len(cut)}


# ---- directory listings (spec/Table.tla, info.py InfoTable) ------------------------------------------------------
TABLE_INVARIANTS = ["TypeOK", "WidthsAreMaxima", "Aligned", "EmptySaysSo"]


def table_model(emit: bool = True, max_rows: int = 2) -> Dict[str, Any]:
    cells = {seq(""), seq("A"), seq("A L"), seq("longer"), seq(" x ")}
    consts = dict(Cells=cells, MaxRows=max_rows, NCols=2, MinWidths={1, 4, 20}, EmitCases=emit)
    return tlc.prepare("Table", consts, spec="Spec", invariants=TABLE_INVARIANTS + (["Emit"] if emit else []), properties=["Terminates"])


def check_table(chk: Check):
    from smpl_extract.info import InfoTable
    res = chk.run_model(table_model(), label="design: column layout of a directory listing (every table of <= 2 rows x 2 columns over 5 cell texts)")
    n = 0
    for c in res.cases:
        rows = [tuple("".join(cell) for cell in r) for r in c["rows"]]
        want = ["".join(l) for l in c["lines"]]
        got = InfoTable(("Item", "Ty"), rows, column_width=c["minw"]).to_string()
        chk.evaluated(("table", repr(rows), c["minw"]), nontrivial=len(rows) > 0)
        n += 1
        ok = got == "".join(l + "\n" for l in want) if rows else got.strip() == want[0]
        if ok:
            chk.agree()
            continue
        # not the specification's text: can every name still be read off its own line, in order (C10)?
        out, j, lost = got.splitlines(), 0, ""
        for r in rows:
            while j < len(out):
                l, pos, good = out[j], 0, True
                j += 1
                for cell in r:
                    at = l.find(cell, pos)
                    if at < 0:
                        good = False
                        break
                    pos = at + len(cell)
                if good:
                    break
            else:
                lost = f"no line shows the row {r!r} with its cells whole and in column order"
                break
        if lost:
            chk.violation({"table": rows, "minw": c["minw"]},
                          f"directory listing of {rows!r} (minimum column width {c['minw']}): {lost}; the specification prints {want}, the tool printed {out}")
        else:
            chk.drift("table_layout_differs_from_Table_tla")
    chk.extra["table_listing"] = {"tables": n}
