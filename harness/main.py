"""Entry point: ./check CNN [--tier quick|thorough] [--replay file]"""
from __future__ import annotations

import argparse
import importlib
import os
import sys
import traceback

from . import tlc
from .core import Check


def main(argv=None) -> int:
    ap = argparse.ArgumentParser()
    ap.add_argument("prop")
    ap.add_argument("--tier", default=os.environ.get("VERIF_TIER", "quick"), choices=["quick", "thorough"])
    ap.add_argument("--replay", default=None)
    args = ap.parse_args(argv)
    seed = int(os.environ.get("VERIF_SEED", "20260927") or 0)
    prop = args.prop.upper()
    try:
        mod = importlib.import_module(f"harness.props.{prop.lower()}")
    except ModuleNotFoundError as e:
        print(f"no check for {prop}: {e}", file=sys.stderr)
        return 2
    chk = Check(prop, args.tier, seed)
    try:
        if args.replay:
            mod.replay(chk, args.replay)
        else:
            mod.run(chk)
        return chk.finish()
    except tlc.TlcError as e:
        print(f"MACHINERY-FAILURE property={prop}: {e}", file=sys.stderr)
        return 2
    except Exception:
        traceback.print_exc()
        print(f"MACHINERY-FAILURE property={prop}: unexpected exception in the harness", file=sys.stderr)
        return 2


if __name__ == "__main__":
    sys.exit(main())
