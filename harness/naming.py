"""Shared by C05 / C06 / C10: name pools, the Names.tla model runs, and builders that put a sequence of
sibling names into real AKAI / Roland / CDDA images."""
from __future__ import annotations

import json
from typing import Any, Dict, List, Tuple

from . import tlc

INVS = ["PathsPairwiseDistinct", "ComponentCharset", "ChannelConservation", "PairIsLR", "SimplePairMerged",
        "SiblingNamesDistinct", "RoundTrip", "Emit"]

# AKAI alphabet: 0-9 A-Z space # + - .   (no trailing blanks: the parser strips the padding)
AKAI_POOL = ["A", "A L", "A-L", "A R", "A-R", "A+L", "A  L", "A  R", "A .", "A.", "A -L", "A L.", "-L", "-R", "L", "A 2 L", ".A"]
# ASCII names (Roland directory names, cue TITLEs): separators, dots, quotes, control characters, generated-looking names
ASCII_POOL = ["A", "A L", "A-L", "A R", "A-R", "A/L", "A  L", "A (2)", "A (2) L", "A  .", "/", "a/b", "..", "../X", "'A'", ":A", "A:", " ", "*\\*",
              "A\\B", "A\x0cL", "A_L", "A.", "`", "A\tL", "A+", "l", "A - L", "A - R", "?/?"]
CUE_POOL = [n for n in ASCII_POOL if '"' not in n and "\t" not in n]


def chars(name: str) -> List[str]:
    return list(name)


def model(pool: List[str], max_sibs: int, is_dir: bool, kind: str, *, no_combine=False, d8=True, d9=True, emit=True, fixed=None):
    return tlc.prepare("Names", dict(Pool=[chars(n) for n in pool], MaxSiblings=max_sibs, IsDir=is_dir, NoCombine=no_combine,
                                     FixedSeqs=tlc.SetOf([list(q) for q in (fixed or [])]),
                                     ImageKind=kind, CountersGloballyUnique=d8, StemCollisionHandled=d9, EmitCases=emit),
                       invariants=INVS)


def S(x: List[str]) -> str:
    return "".join(x)


# ---- images -------------------------------------------------------------------------------------
def akai_files_case(names: List[str], lens: List[int] = None) -> Dict[str, Any]:
    """one partition / one volume 'VOL' holding one single-sector sample file per name; sample k has 100+k words
    (or lens[k])"""
    files = []
    for k, n in enumerate(names):
        cnt = (lens[k] if lens else 100)
        files.append({"name": n, "stem": "", "ftype": 243, "chain": [5 + k], "cnt": cnt, "ps": 0, "pe": cnt, "rate": 44100, "pair": "",
                      "hdr": {"samples_cnt": cnt + 1000 * (k + 1)}})
    sat = [[4, 49152]] + [[5 + k, 49152] for k in range(len(names))]
    return {"S": 8192, "H": 140, "T": 11386, "nsect": 6 + len(names), "first": 3,
            "parts": [{"vols": [{"name": "VOL", "vtype": 1, "dir": [4], "dirstyle": "chain", "blanks": 0, "files": files}],
                       "sys": 0, "sat": sat}], "expected": []}


def akai_dirs_case(names: List[str], same_child: bool = False) -> Dict[str, Any]:
    """one partition, one volume per name, each holding one sample 'S<k>' (or 'S0' in every volume)"""
    vols, sat = [], []
    sec = 4
    for k, n in enumerate(names):
        vols.append({"name": n, "vtype": 1, "dir": [sec], "dirstyle": "chain", "blanks": 0,
                     "files": [{"name": "S0" if same_child else f"S{k}", "stem": "", "ftype": 243, "chain": [sec + 1], "cnt": 50 + k, "ps": 0, "pe": 50 + k,
                                "rate": 44100, "pair": ""}]})
        sat += [[sec, 49152], [sec + 1, 49152]]
        sec += 2
    return {"S": 8192, "H": 140, "T": 11386, "nsect": sec + 1, "first": 3,
            "parts": [{"vols": vols, "sys": 0, "sat": sat}], "expected": []}


def roland_files_case(names: List[str], lens: List[int] = None) -> Dict[str, Any]:
    """one volume 'Vol', one performance 'Perf', one patch 'Qq_patch9'; sample k in partial k//4 slot k%4"""
    samples, fat = [], []
    for k, n in enumerate(names):
        end = (lens[k] if lens else 60) - 1
        samples.append({"name": n, "chain": [2 + k], "ctop": 0, "mode": 2, "freq": 1, "pts": [0, 0, end, 0, end], "key": 60,
                        "fines": [k + 1, 0, 0, 0, 0]})
        fat.append([2 + k, 65528])
    partials = [{"name": f"Pt{j}", "refs": list(range(4 * j, min(4 * j + 4, len(names))))} for j in range((len(names) + 3) // 4)]
    img = {"samples": samples, "partials": partials, "patches": [{"name": "Qq_patch9", "partials": list(range(len(partials)))}],
           "perfs": [{"name": "Perf", "patches": [0]}], "vols": [{"name": "Vol", "perfs": [0]}], "fatver": 1}
    return {"C": 9216, "nclusters": 3 + len(names), "img": img, "fat": fat, "expected": []}


def roland_dirs_case(names: List[str], level: str, same_child: bool = False) -> Dict[str, Any]:
    """level 'volume': one volume per name, each with its own performance P<k>; level 'performance': one volume, one
    performance per name; every performance has its own patch/partial/sample"""
    n = len(names)
    samples = [{"name": "Smp" if same_child else f"Smp{k}", "chain": [2 + k], "ctop": 0, "mode": 2, "freq": 1, "pts": [0, 0, 40 + k, 0, 40 + k], "key": 60}
               for k in range(n)]
    fat = [[2 + k, 65528] for k in range(n)]
    partials = [{"name": f"Pt{k}", "refs": [k]} for k in range(n)]
    patches = [{"name": f"Qq_patch{k}", "partials": [k]} for k in range(n)]
    if level == "volume":
        perfs = [{"name": "P" if same_child else f"P{k}", "patches": [k]} for k in range(n)]
        vols = [{"name": names[k], "perfs": [k]} for k in range(n)]
    else:
        perfs = [{"name": names[k], "patches": [k]} for k in range(n)]
        vols = [{"name": "Vol", "perfs": list(range(n))}]
    img = {"samples": samples, "partials": partials, "patches": patches, "perfs": perfs, "vols": vols, "fatver": 1}
    return {"C": 9216, "nclusters": 3 + n, "img": img, "fat": fat, "expected": []}


def cue_lines(names: List[str]) -> Tuple[List[dict], int]:
    """abstract cue lines (Cue.tla records) for one AUDIO track per name; track k (0-based) is k+1 frames long"""
    L = lambda c, a=0, b="", m=0, s=0, f=0: {"c": c, "a": a, "b": b, "m": m, "s": s, "f": f}
    lines = [L("FILE", 0, "image.bin")]
    for k, n in enumerate(names):
        lines += [L("TRACK", k + 1, "AUDIO"), L("TITLE", 0, n), L("INDEX", 1, "", 0, 0, k * (k + 1) // 2)]
    n = len(names)
    return lines, 2352 * (n * (n + 1) // 2)


def collision_rich(names: List[str]) -> bool:
    """two groups of duplicates, or two complete L/R pairs, or a pair plus its bare stem: the shapes in which generated
    '(n)' names and merged stems can collide"""
    from collections import Counter
    c = Counter(names)
    dup_groups = sum(1 for v in c.values() if v >= 2)
    stems = Counter()
    for n in set(names):
        for suf in ("-L", "-R", " L", " R"):
            if n.endswith(suf):
                stems[(n[:-2].rstrip(" -"), suf[0])] += 1
    lr = {}
    for n in set(names):
        if len(n) > 2 and n[-1] in "LR" and n[-2] in " -":
            lr.setdefault((n[:-2].rstrip(" -"), n[-2]), set()).add(n[-1])
    pairs = sum(1 for v in lr.values() if v == {"L", "R"})
    return dup_groups >= 2 or pairs >= 2 or (pairs >= 1 and any(k[0] in names for k, v in lr.items() if v == {"L", "R"}))


def pick(cases: List[Dict[str, Any]], budget: int, seed: int) -> List[Dict[str, Any]]:
    """quick-tier selection: every lone name (a directory with one item is a path of its own through the naming code) and a
    seeded shuffle of the rest - never a stride over the sorted cases, whose neighbours differ in the dimension that matters"""
    import json as _j
    import random as _r
    cs = sorted(cases, key=lambda c: _j.dumps(c["names"]))
    lone = [c for c in cs if len(c["names"]) <= 1]
    rest = [c for c in cs if len(c["names"]) > 1]
    _r.Random(seed).shuffle(rest)
    return lone + rest[:budget]
