"""C02 - Roland S-7xx export is byte-exact for every cluster chain and loop mode.

Specification: spec/RolandImage.tla (+ AllocTable.tla instance for the FAT).
"""
from __future__ import annotations

import json
import os
import shutil
from typing import Dict, List

from .. import tlc
from ..core import Check
from .. import repo
from ..readers import riff
from ..writers import roland as rw
from .c01 import export_image

INVS = ["LayoutSane", "WindowIsStartToModeEnd", "OrphanPerformancesAppearOnce", "Emit"]


def design_cfg(ncl, ns, mc, mperf=2, shared=False):
    c = dict(C=4, NClusters=ncl, Mode="exhaustive", MaxSamples=ns, MaxChain=mc, MaxPartials=1, MaxPatches=1,
             MaxPerfs=mperf, MaxVols=1, Shared=shared, EmitCases=False)
    return tlc.cfg_text(constants=c, invariants=INVS + ["DecodeOfEncodeIsChain"])


def real_cfg(shared=True):
    c = dict(C=9216, NClusters=40, Mode="classes", MaxSamples=3, MaxChain=3, MaxPartials=2, MaxPatches=2, MaxPerfs=2,
             MaxVols=2, Shared=shared, EmitCases=True)
    return tlc.cfg_text(constants=c, invariants=INVS)


def generate(chk: Check, num: int, seed: int, label="Roland images at real constants") -> List[dict]:
    res = chk.run_tlc("RolandImage", real_cfg(), simulate=f"num={max(1, num // 8)}", depth=24, seed=seed, workers=8,
                      label=f"{label} (simulate)", timeout_s=3000)
    seen, out = set(), []
    for c in res.cases:
        k = json.dumps(c, sort_keys=True)
        if k not in seen:
            seen.add(k)
            out.append(c)
    out.sort(key=lambda c: json.dumps(c, sort_keys=True))
    return out


def compare(case: dict, image: bytes, lines: List[str], files: Dict[str, bytes], err: str) -> List[str]:
    problems = []
    if err:
        problems.append(f"export aborted: {err}")
    if sorted(lines) != sorted(files):
        problems.append(f"Exported lines {sorted(lines)} != files on disk {sorted(files)}")
    by_dir: Dict[str, Dict[str, bytes]] = {}
    for rel, b in files.items():
        by_dir.setdefault(os.path.dirname(rel), {})[os.path.basename(rel)] = b
    exp_dirs = {}
    for e in case["expected"]:
        exp_dirs[f"{e['volume']}/{e['performance']}"] = e
    # performances without samples create no directory
    want_dirs = {d for d, e in exp_dirs.items() if e["samples"]}
    if set(by_dir) != want_dirs:
        problems.append(f"directories {sorted(by_dir)} != expected {sorted(want_dirs)}")
    import re as _re
    for d in want_dirs & set(by_dir):
        e = exp_dirs[d]
        # expected references grouped by sample name; files grouped by the name they carry ("X.wav", "X (2).wav" -> X).  Two
        # samples may lie in ONE cluster chain behind the same offset and so hold the same bytes: the name tells them apart.
        want: Dict[str, list] = {}
        for s_ in e["samples"]:
            want.setdefault(s_["name"], []).append((rw.read_extents(image, case, s_["extents"], s_["reversed"]), s_["rate"], s_["sample"]))
        all_payloads = {p_ for v in want.values() for p_, _, _ in v}
        got: Dict[str, list] = {}
        for fname, b in by_dir[d].items():
            r = riff.parse(b)
            if r["problems"] or not r["fmt"] or r["data_off"] < 0:
                problems.append(f"{d}/{fname}: unreadable WAV")
                continue
            payload = riff.pcm(b)
            if r["fmt"]["channels"] != 1:
                problems.append(f"{d}/{fname}: {r['fmt']['channels']} channels")
            if payload not in all_payloads:
                problems.append(f"{d}/{fname}: PCM ({len(payload)} bytes) is not the window of any sample this performance references")
                continue
            base = _re.sub(r" \(\d+\)$", "", fname[:-4]) if fname.endswith(".wav") else fname
            got.setdefault(base if base in want else fname[:-4], []).append((payload, r["fmt"]["rate"], fname))
        for name, refs in want.items():
            files_ = got.get(name, [])
            if not files_:
                problems.append(f"{d}: no file named {name}.wav (sample #{refs[0][2]} missing)")
                continue
            wp = sorted((p_, rate) for p_, rate, _ in refs)
            gp = sorted((p_, rate) for p_, rate, _ in files_)
            if {x for x in wp} != {x for x in gp}:
                w_r, g_r = sorted({r_ for _, r_ in wp}), sorted({r_ for _, r_ in gp})
                if {p_ for p_, _ in wp} != {p_ for p_, _ in gp}:
                    problems.append(f"{d}: sample {name} (#{refs[0][2]}) missing or altered: the file(s) {[f for _, _, f in files_]} do not hold its window")
                else:
                    problems.append(f"{d}/{files_[0][2]}: rate {g_r} != {w_r}")
        for name in got:
            if name not in want:
                problems.append(f"{d}: file(s) {[f for _, _, f in got[name]]} carry the name of no sample this performance references")
    return problems


def run_case(chk: Check, case: dict, seed: int, label: str, wav_sink=None, trim: bool = False) -> bool:
    image = rw.build_image(case, seed)
    if trim:          # a compact dump: the file ends right behind the highest used data cluster
        top = max([c for s_ in case["img"]["samples"] for c in s_["chain"]] + [2])
        image = image[: rw.A["data_fat"] + (top + 1) * case["C"]]
    work = tlc.scratch_dir("c02_")
    try:
        lines, files, err = export_image(image, work)
        problems = compare(case, image, lines, files, err)
        nontriv = any(len(s["chain"]) - s["ctop"] > 1 for s in case["img"]["samples"])
        chk.evaluated((label, json.dumps(case, sort_keys=True)), nontrivial=nontriv)
        if wav_sink is not None:
            for rel, b in files.items():
                wav_sink(rel, b, None)
        if problems:
            chk.violation({"case": case, "seed": seed, "trim": trim}, "; ".join(problems)[:1500])
            return False
        chk.agree()
        return True
    finally:
        shutil.rmtree(work, ignore_errors=True)


def run(chk: Check):
    thorough = chk.tier == "thorough"
    chk.rule = ("design: every image of the tiny geometry (cluster 4 bytes): all cluster chains (placement, order), cluster_top, 7 loop "
                "modes, all (start, sustain end, release end) triples, performance/volume/orphan topologies; replay: TLC-simulated "
                "images at the real constants over shapes (1-3 samples, 1-2 partials/patches/performances, 0-2 volumes, shared and "
                "orphaned performances), chain classes, cluster_top 0/1, 7 modes, 6 frequency codes, FAT version flag 1/2, five "
                "point classes incl. windows filling the last cluster exactly, two samples sharing one chain behind different "
                "leading-cluster offsets; every second image is cut right behind its highest used cluster (compact dump); "
                "non-trivial = a sample spans >= 2 data clusters")
    for ncl, ns, mc in ([(6, 1, 2)] if not thorough else [(7, 1, 3), (6, 2, 1)]):
        chk.run_tlc("RolandImage", design_cfg(ncl, ns, mc), label=f"design tiny clusters<{ncl} samples<={ns} chain<={mc}",
                    timeout_s=3000, heap="8g")
    # two samples in ONE cluster chain behind different leading-cluster offsets (tiny geometry, design level)
    if thorough:
        chk.run_tlc("RolandImage", design_cfg(5, 2, 2, mperf=1, shared=True), label="design tiny clusters<5 samples<=2 chain<=2, shared chains (exhaustive)",
                    timeout_s=3000, heap="8g")
    else:
        chk.run_tlc("RolandImage", design_cfg(6, 2, 2, mperf=1, shared=True), simulate="num=40", depth=12, seed=chk.seed, workers=8,
                    label="design tiny clusters<6 samples<=2 chain<=2, shared chains (simulated behaviours)", timeout_s=600)
    cases = generate(chk, 1200 if thorough else 96, chk.seed)
    sharing = [c for c in cases if len({tuple(s["chain"]) for s in c["img"]["samples"]}) < len(c["img"]["samples"])]
    chk.extra["images_with_a_shared_chain"] = len(sharing)
    if not sharing:
        raise tlc.TlcError("no generated Roland image stores two samples in one cluster chain")
    if len(cases) < (300 if thorough else 40):
        raise tlc.TlcError(f"only {len(cases)} images generated")
    if not thorough and len(cases) > 220:          # every Finish has 4 successors (FAT version x spread): keep a stride
        import random
        random.Random(chk.seed).shuffle(cases)            # not a stride: neighbours differ only in FAT version / spread
        cases = cases[:220]
    for i, case in enumerate(cases):
        run_case(chk, case, chk.seed + i, "real", trim=bool(i % 2))
    c = cases[len(cases) // 2]
    chk.sample({"samples": c["img"]["samples"], "vols": c["img"]["vols"], "perfs": c["img"]["perfs"],
                "expected": [(e["volume"], e["performance"], sorted(s["name"] for s in e["samples"])) for e in c["expected"]]})
    chk.assumptions += [
        "files are matched to samples by PCM payload (cluster contents are PRNG bytes keyed by cluster, so payloads identify samples); "
        "a sample referenced through two patches of one performance is exported twice ('X', 'X (2)'), which the property allows (set of samples)",
        "metadata areas are zero-filled; names are plain ASCII",
    ]


def replay(chk: Check, path: str):
    rec = json.load(open(path))
    run_case(chk, rec["case"]["case"], rec["case"]["seed"], "replay", trim=rec["case"].get("trim", False))
    chk.run_tlc("RolandImage", design_cfg(6, 1, 1), label="design (replay context)", timeout_s=600)
