"""C03 - CDDA tracks tile the bin file exactly at the cue sheet's index positions.  Spec: spec/Cue.tla."""
from __future__ import annotations

import json
import os
import shutil
from typing import Dict, List

from .. import tlc, cue
from ..core import Check
from .. import repo
from ..readers import riff

INVS = ["MeaningUnchanged", "NoFileLineIsNotCue", "WindowsTile", "DataTrackCueIsSampler", "Emit"]
TIMES_Q = [[0, 0, 0], [0, 0, 1], [0, 0, 74], [0, 1, 0], [0, 1, 74]]
TIMES_T = TIMES_Q + [[0, 2, 0], [1, 0, 0]]


OTHERS = {"REM GENRE Rock", 'PERFORMER "Nobody"', "FLAGS DCP", "PREGAP 00:02:00", "CATALOG 1234567890123",
          # unrecognised lines that MENTION the keywords further right (recognition is anchored at the start of the line)
          "REM re-ripped from track 2 of the 1994 pressing", "REM see INDEX 01 00:00:00", 'REM was FILE "old.bin" BINARY', 'REM TITLE "draft"'}


def model(max_tracks, times, binlens, with_data=False, emit=True, others=("REM GENRE Rock",), repeats=(1,), dense=False):
    return tlc.prepare("Cue", dict(MaxTracks=max_tracks, Times=times, BinLens=set(binlens), WithData=with_data, Others=set(others),
                                   Repeats=set(repeats), Dense=dense, EmitCases=emit), invariants=INVS)


# long sheets: Cue.tla's recursive parser needs a deep Java stack for sheets of hundreds / thousands of lines
DEEP = {"JAVA_TOOL_OPTIONS": "-Xss1g"}
TIMES_99 = [[k // 30, (2 * k) % 60, 0] for k in range(99)]                   # 99 tracks, two seconds apart
LONG_REM = "REM " + "long remark " * 5                                        # 64 characters


def long_cases(chk: Check, thorough: bool):
    """sheets far longer than the 1-3 track ones: the 99-track sheet (every track titled, every second one with a second
    INDEX), bare and with 200 remarks before FILE / in the middle / at the end; and a short sheet with 2500 copies of a
    64-character remark at every allowed position (more than 160 kB of text in front of the lines that matter)"""
    dense = chk.run_model(model(99, TIMES_99, {2352, 2355}, others=(LONG_REM,), repeats=(1, 200), dense=True), env=DEEP, workers=8,
                          label="design: the 99-track sheet, bare and with 200 remarks at the start / middle / end", timeout_s=3000).cases
    bulk = chk.run_model(model(2 if thorough else 1, TIMES_Q[:2], {2352}, others=(LONG_REM,), repeats=(2500,)), env=DEEP, workers=16,
                         label="design: MeaningUnchanged under 2500 copies of a remark at every allowed position", timeout_s=3000).cases
    return [expand(c) for c in dense], [expand(c) for c in bulk if c["ins"]["pos"] != 0]


def expand(case: dict) -> dict:
    """a bulk insertion (rep > 3) is emitted without the decorated lines: rebuild them (Apply of Cue.tla)"""
    ins = case["ins"]
    if case["lines"] or ins["pos"] == 0:
        return case
    c = dict(case)
    c["lines"] = case["canonical"][: ins["pos"] - 1] + [ins["line"]] * ins["rep"] + case["canonical"][ins["pos"] - 1:]
    return c


def expected_files(case: dict, data: bytes) -> Dict[str, bytes]:
    exp = {}
    for w in case["windows"]:
        name = w["title"] if not w["untitled"] else f"Untitled Track {w['pos']}"
        exp[name + ".wav"] = data[w["off"]: w["off"] + w["pcm"]]
    return exp


def run_case(chk: Check, case: dict, seed: int, style: int, wav_sink=None):
    work = tlc.scratch_dir("c03_")
    try:
        text = cue.render(case["lines"], style, seed)
        cpath, data = cue.write_pair(work, text, case["binlen"], seed)
        exp = expected_files(case, data)
        dest = os.path.join(work, "out")
        err = ""
        lines: List[str] = []
        try:
            lines = repo.export(cpath, dest)
        except BaseException as e:  # noqa
            err = f"{type(e).__name__}: {e}"
        files = repo.walk_files(dest) if os.path.isdir(dest) else {}
        problems = []
        if err:
            problems.append(f"export aborted: {err}")
        if sorted(lines) != sorted(exp) or sorted(files) != sorted(exp):
            problems.append(f"exported {sorted(lines)} / on disk {sorted(files)} != expected {sorted(exp)}")
        concat = b""
        for w in case["windows"]:
            name = (w["title"] if not w["untitled"] else f"Untitled Track {w['pos']}") + ".wav"
            if name not in files:
                continue
            r = riff.parse(files[name])
            if r["problems"] or not r["fmt"]:
                problems.append(f"{name}: unreadable WAV")
                continue
            f = r["fmt"]
            if (f["channels"], f["rate"], f["bits"]) != (2, 44100, 16):
                problems.append(f"{name}: format {f['channels']}ch {f['rate']}Hz {f['bits']}bit")
            got = riff.pcm(files[name])
            if got != exp[name]:
                problems.append(f"{name}: PCM is not bin[{w['off']}:{w['off'] + w['pcm']}] (got {len(got)} bytes)")
            concat += got
        if not problems and case["windows"]:
            first = case["windows"][0]["off"]
            if concat != data[first:first + len(concat)] or len(data) - first - len(concat) not in (0, 1, 2, 3):
                problems.append("concatenated tracks do not reproduce the bin from the first track onward")
        chk.evaluated(("c03", json.dumps(case["lines"]), case["binlen"], style), nontrivial=len(case["windows"]) > 1)
        if wav_sink is not None:
            for rel, b in files.items():
                wav_sink(rel, b, None)
        if problems:
            chk.violation({"case": case, "seed": seed, "style": style}, "; ".join(problems)[:1200])
        else:
            chk.agree()
    finally:
        shutil.rmtree(work, ignore_errors=True)


def cases_for(chk: Check, thorough: bool):
    if not thorough:
        res = chk.run_model(model(2, TIMES_Q, {2352, 2353, 2355, 2356, 4703}),
                            label="design: all sheets of <= 2 tracks x insertions x bin lengths", timeout_s=3000)
        return res.cases
    # thorough: 3 tracks over the carry-crossing times, and 2 tracks over the long times (01:00:00) with many bin lengths;
    # decorations are C17's subject: none here, so that the state space stays in the hundreds of thousands
    r1 = chk.run_model(model(3, TIMES_Q, {2352, 2353, 2355, 4703}, others=()), label="design: all sheets of <= 3 tracks x blank insertions x bin lengths",
                       timeout_s=3000, heap="8g")
    r2 = chk.run_model(model(2, TIMES_T, {4, 2352, 2353, 2354, 2355, 2356, 4700, 4703, 7056}), label="design: <= 2 tracks, long index times, 9 bin lengths",
                       timeout_s=3000, heap="8g")
    return r1.cases + r2.cases


def sweep_cases(chk: Check, thorough: bool):
    """one-track sheets whose first index sweeps every frame value 0..74 (x seconds 0..2, plus minute carries): every
    MM:SS:FF must land on exactly (60 MM + SS) * 75 + FF sectors"""
    times = [[0, s, f] for s in (0, 1, 2) for f in range(75)]
    if thorough:
        times += [[0, 59, f] for f in range(0, 75, 7)] + [[1, 0, f] for f in range(0, 75, 11)]
    res = chk.run_model(tlc.prepare("Cue", dict(MaxTracks=1, Times=times, BinLens={2352, 2355}, WithData=False, Others=set(), Repeats={1}, Dense=False, EmitCases=True),
                                    invariants=["WindowsTile", "Emit"]), label=f"design: one-track sheets over {len(times)} index times", timeout_s=3000)
    plain = [c for c in res.cases if c["ins"]["pos"] == 0 and not any(l["c"] == "TITLE" for l in c["lines"])]
    return plain


def run(chk: Check):
    thorough = chk.tier == "thorough"
    chk.rule = ("TLC enumerates every sheet of 1..n AUDIO tracks with first-index times from a set crossing the MSF carries "
                "(with/without TITLE, pregap INDEX 00, a second INDEX), every cosmetic insertion position and bin lengths "
                "k*2352 + {0,1,3,4,2351}; replayed: all undecorated sheets and a stride of decorated ones; long sheets: the 99-track sheet "
                "(bare / with 200 remarks) and short sheets with 2500 remarks at every allowed position; non-trivial = >= 2 tracks")
    cases = cases_for(chk, thorough)
    chk.exhaustive = True
    plain = [c for c in cases if c["ins"]["pos"] == 0]
    deco = [c for c in cases if c["ins"]["pos"] != 0]
    stride = max(1, len(deco) // (1500 if thorough else 120))
    todo = plain + deco[chk.seed % stride::stride]
    if thorough:
        keep = []
        for c in todo:
            if c["binlen"] > 3_000_000 and len(keep) % 7:
                continue
            keep.append(c)
        todo = keep
    if not thorough:
        todo = todo[::max(1, len(todo) // 350)]
    sw = sweep_cases(chk, thorough)
    sw = sw if thorough else [c for c in sw if c["binlen"] % 2352 == 0 and len(c["lines"]) == 3]      # FILE, TRACK, INDEX 01
    dense, bulk = long_cases(chk, thorough)
    long_ = [c for c in dense if c["binlen"] % 2352 or thorough] + bulk[:: (1 if thorough else max(1, len(bulk) // 6))]
    chk.extra["long_sheets"] = {"dense_99_tracks": len(dense), "bulk_2500_remarks": len(bulk), "replayed": len(long_),
                                "largest_text_bytes": max(len("".join(cue.render(c["lines"], 0, 1))) for c in long_)}
    for i, c in enumerate(todo + sw + long_):
        run_case(chk, c, chk.seed + i, i % len(cue.STYLES))
    chk.sample({"text": cue.render(todo[len(todo) // 2]["lines"], 1, 1), "binlen": todo[len(todo) // 2]["binlen"],
                "windows": todo[len(todo) // 2]["windows"]})
    chk.assumptions.append("titles are plain (naming is C06's subject); the bin holds PRNG bytes")


def replay(chk: Check, path: str):
    rec = json.load(open(path))["case"]
    run_case(chk, rec["case"], rec["seed"], rec["style"])
    chk.run_model(model(1, TIMES_Q, {2352}, emit=False), label="design (replay context)")
