"""C05 - left/right pairs merge into one stereo file; no sample is lost or duplicated.  Spec: spec/Names.tla."""
from __future__ import annotations

import json
import os
import shutil
from typing import Dict, List

from .. import tlc, naming, traces
from ..core import Check
from .. import repo
from ..readers import riff
from ..writers import akai as aw, roland as rw
from .c01 import export_image


def sample_bytes_akai(image: bytes, k: int, cnt: int) -> bytes:
    o = (5 + k) * 8192 + 140
    return image[o:o + 2 * cnt]


def sample_bytes_roland(image: bytes, k: int, n: int) -> bytes:
    o = rw.A["data_fat"] + (2 + k) * 9216
    return image[o:o + 2 * n]


TRACE_EVENTS: List[dict] = []
TRACE_IDS: List[dict] = []


def check_dir(chk: Check, case: dict, kind: str, lens: List[int], seed: int, label: str, record: bool = False):
    names = [naming.S(n) for n in case["names"]]
    if kind == "akai":
        image = aw.build_image(naming.akai_files_case(names, lens), seed)
        src = [sample_bytes_akai(image, k, lens[k]) for k in range(len(names))]
        prefix = "A/VOL/"
    else:
        image = rw.build_image(naming.roland_files_case(names, lens), seed)
        src = [sample_bytes_roland(image, k, lens[k]) for k in range(len(names))]
        prefix = "Vol/Perf/"
    work = tlc.scratch_dir("c05_")
    try:
        if record:
            tp = os.path.join(work, "trace.ndjson")
            with traces.recording(tp):
                lines, files, err = export_image(image, work)
            TRACE_IDS.append({"names": names, "kind": kind})
            TRACE_EVENTS.extend(traces.load(tp, len(TRACE_IDS) - 1, {"SetLevel", "AddSample", "Write", "FinishLevel"}))
        else:
            lines, files, err = export_image(image, work)
        key = (label, kind, tuple(names), tuple(lens))
        chk.evaluated(key, nontrivial=any(len(o["ch"]) == 2 for o in case["outputs"]) or len(set(names)) < len(names))
        problems = []
        if err:
            problems.append(f"export aborted: {err}")
        got = {}
        for rel, b in files.items():
            if not rel.startswith(prefix):
                problems.append(f"unexpected file {rel}")
                continue
            r = riff.parse(b)
            if not r["fmt"] or r["data_off"] < 0:
                problems.append(f"{rel}: unreadable")
                continue
            got[rel[len(prefix):]] = riff.deinterleave(riff.pcm(b), r["fmt"]["channels"])
        # property-level: channels of all files add up to the number of samples, every sample appears exactly once
        nch = sum(len(c) for c in got.values())
        if nch != len(names):
            problems.append(f"channels of all written files add up to {nch}, directory holds {len(names)} samples")
        if len(files) != len(lines):
            problems.append(f"{len(lines)} Exported lines but {len(files)} files on disk")
        equal = len(set(lens)) == 1
        for k, s in enumerate(src):
            hits = sum(1 for chans in got.values() for c in chans if c == s or (not equal and (c[:len(s)] == s or s[:len(c)] == c) and c))
            if hits < 1:
                problems.append(f"sample #{k} ({names[k]!r}) appears in no output channel")
        # the specification's prediction: which ids end up in which file, L in channel 0 and R in channel 1
        for o in case["outputs"]:
            fname = naming.S(o["name"]) + ".wav"
            if fname not in got:
                problems.append(f"predicted file {fname!r} (samples {o['ch']}) not written")
                continue
            chans = got[fname]
            if len(chans) != len(o["ch"]):
                problems.append(f"{fname!r}: {len(chans)} channels, predicted {len(o['ch'])}")
                continue
            for ci, sid in enumerate(o["ch"]):
                want = src[sid - 1]
                if equal:
                    if chans[ci] != want:
                        problems.append(f"{fname!r}: channel {ci} is not sample #{sid - 1} ({names[sid - 1]!r})")
                else:
                    m = min(len(want), len(chans[ci]))
                    shortest = min(len(src[x - 1]) for x in o["ch"])
                    if chans[ci][:shortest] != want[:shortest]:
                        problems.append(f"{fname!r}: channel {ci} differs from sample #{sid - 1} below the shorter length")
        if problems:
            chk.violation({"names": names, "kind": kind, "lens": lens, "seed": seed, "predicted": [(naming.S(o["name"]), o["ch"]) for o in case["outputs"]]},
                          f"{kind} directory {names}: " + "; ".join(problems)[:1200])
        else:
            chk.agree()
    finally:
        shutil.rmtree(work, ignore_errors=True)


def run(chk: Check):
    thorough = chk.tier == "thorough"
    chk.rule = ("TLC runs the naming machine (two sanitising passes, (n) counters, L/R pairing) on every sequence of <= 4 sibling names from "
                "pools of near-colliding names (AKAI alphabet / ASCII) and checks ChannelConservation, PairIsLR, SimplePairMerged, "
                "PathsPairwiseDistinct; sequences are put into real AKAI volumes and Roland performances (equal and unequal lengths) and the "
                "exported channels compared with the prediction; non-trivial = contains a pair or duplicate names")
    runs = [("akai", naming.AKAI_POOL[:9] if not thorough else naming.AKAI_POOL, 3 if not thorough else 4),
            ("roland", naming.ASCII_POOL[:11] if not thorough else naming.ASCII_POOL[:18], 3 if not thorough else 4)]
    if not thorough:
        runs.append(("akai", ["A L", "A-L", "A R", "A", "A-R"], 4))      # the 4-sibling collisions (D8/D9) in the quick tier
    for kind, pool, k in runs:
        res = chk.run_model(naming.model(pool, k, False, "akai" if kind == "akai" else "other"),
                            label=f"design: all sequences of <= {k} names from a pool of {len(pool)} ({kind})", timeout_s=3000)
        cases = res.cases
        # replay: all multiset classes (sorted name tuple) once per order class; bounded
        budget = 1500 if thorough else 220
        for i, c in enumerate(naming.pick(cases, budget, chk.seed)):
            n = len(c["names"])
            check_dir(chk, c, kind, [60] * n, chk.seed + i, "equal", record=(i % 7 == 0))
            if i % 4 == 0 and n > 1:
                check_dir(chk, c, kind, [60 + 7 * j for j in range(n)], chk.seed + i, "unequal")
            # halves longer than one read block of the transcoder (2048 frames): the channels are then read in turns, block by block
            if i % 6 == 1 and n > 1:
                check_dir(chk, c, kind, [3000] * n, chk.seed + i, "long-equal")
            if i % 12 == 5 and n > 1:
                check_dir(chk, c, kind, [2049 + 500 * j for j in range(n)], chk.seed + i, "long-unequal")
    # trace validation of the recorded export executions: every added sample written exactly once, no path twice
    rej = traces.validate(chk, "ExportTrace", TRACE_EVENTS, f"trace validation: export-level protocol of {len(TRACE_IDS)} recorded exports")
    for rj in rej:
        who = TRACE_IDS[rj["tid"]]
        chk.violation({"trace": "export", "names": who["names"], "kind": who["kind"], "lens": [60] * len(who["names"]), "seed": chk.seed},
                      f"{who['kind']} directory {who['names']}: export trace rejected: {sorted(rj['clauses'])}")
    chk.extra["export_trace_events_validated"] = len(TRACE_EVENTS)
    chk.exhaustive = True
    chk.sample({"names": ["A-L", "A-L", "A L", "A L"], "note": "both duplicate groups generate 'A (2) L'"})
    chk.assumptions += ["AKAI names are limited to the AKAI character set without trailing blanks; Roland names to 16 ASCII bytes",
                        "for unequal lengths the comparison is below the shorter length (the property says 'for pairs of equal length every frame')"]


def replay(chk: Check, path: str):
    rec = json.load(open(path))["case"]
    pool = sorted(set(rec["names"]))
    res = chk.run_model(naming.model(pool, len(rec["names"]), False, "akai" if rec["kind"] == "akai" else "other"), label="replay")
    for c in res.cases:
        if [naming.S(n) for n in c["names"]] == rec["names"]:
            check_dir(chk, c, rec["kind"], rec["lens"], rec["seed"], "replay")
