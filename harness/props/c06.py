"""C06 - output paths are unique, file-system safe and confined to the destination.  Spec: spec/Names.tla."""
from __future__ import annotations

import json
import os
import re
import shutil
from typing import Dict, List

from .. import tlc, naming, cue, cli
from ..core import Check
from .. import repo
from ..writers import akai as aw, roland as rw

COMPONENT = re.compile(r"^\w[\w \-.#()]*$", re.ASCII)


def component_ok(c: str) -> bool:
    return bool(COMPONENT.match(c)) and not c.endswith((" ", "."))


def export_and_judge(chk: Check, key, build, predicted_last: List[str], prefix: str, label: str, payload: dict):
    """build(work) -> path of the image (or cue) file; judges the property on what export writes."""
    work = tlc.scratch_dir("c06_")
    try:
        sentinel = os.path.join(work, "sentinel")
        dest = os.path.join(sentinel, "a", "b", "dest")
        os.makedirs(dest)
        ipath = build(work)
        err, lines = "", []
        try:
            lines = repo.export(ipath, dest)
        except BaseException as e:  # noqa
            err = f"{type(e).__name__}: {e}"
        found = []
        for d, _, fs in os.walk(sentinel):
            for f in fs:
                found.append(os.path.relpath(os.path.join(d, f), dest))
        chk.evaluated(key, nontrivial=True)
        problems = []
        if err:
            problems.append(f"export aborted: {err}")
        if len(found) != len(lines):
            problems.append(f"{len(lines)} Exported lines but {len(found)} files on disk")
        if len(set(lines)) != len(lines):
            problems.append("two samples were reported under the same path")
        for rel in found:
            if rel.startswith(".."):
                problems.append(f"file written outside the destination: {rel}")
                continue
            for comp in rel.split(os.sep):
                if not component_ok(comp):
                    problems.append(f"unsafe path component {comp!r} in {rel!r}")
        if problems:
            chk.violation(dict(payload, label=label), f"{label} {payload.get('names')}: " + "; ".join(problems)[:1000])
            return
        # conformance with the specification's exact names (drift only)
        want = sorted(prefix + p for p in predicted_last)
        got = sorted(found)
        if want != got:
            chk.drift("names_differ_from_spec")
            ex = chk.extra.setdefault("drift_examples", [])
            if len(ex) < 5:
                ex.append({"label": label, "names": payload.get("names"), "spec": want, "code": got})
        else:
            chk.agree()
    finally:
        shutil.rmtree(work, ignore_errors=True)


def write_image(work, data, name="image.img"):
    p = os.path.join(work, name)
    with open(p, "wb") as fh:
        fh.write(data)
    return p


def run(chk: Check):
    thorough = chk.tier == "thorough"
    chk.rule = ("TLC checks PathsPairwiseDistinct and ComponentCharset on every sequence of <= 3-4 sibling names (files with pairing, files "
                "without pairing, directories) from pools containing separators, '..', quotes, control characters, names equal after "
                "sanitising, generated-looking '(n)' names and stereo stems; sequences are placed at every directory level of real AKAI, "
                "Roland and CDDA images, exported into a directory nested inside a sentinel, and every created file is judged; the command "
                "line (spec/Cli.tla): every argument vector up to 3-5 tokens through the real main(), export vectors (-d in every "
                "spelling and position, default destination) executed: files only under the destination, same files as the action called directly")
    k = 4 if thorough else 3
    budget = 500 if thorough else 40
    plans = [
        ("akai files", naming.AKAI_POOL if thorough else naming.AKAI_POOL[:9], False, False, "akai"),
        ("akai volumes", naming.AKAI_POOL if thorough else naming.AKAI_POOL[:9], True, False, "akai"),
        ("roland samples", naming.ASCII_POOL[:18] if thorough else naming.ASCII_POOL[:11], False, False, "other"),
        ("roland volumes", naming.ASCII_POOL[:18] if thorough else naming.ASCII_POOL[6:17], True, False, "other"),
        ("roland performances", naming.ASCII_POOL[:18] if thorough else naming.ASCII_POOL[6:17], True, False, "other"),
        ("cdda titles", naming.CUE_POOL[:18] if thorough else naming.CUE_POOL[4:15], False, True, "other"),
    ]
    plans = [(l, p, d, n, kd, k) for (l, p, d, n, kd) in plans]
    if not thorough:      # 4-sibling collisions in the quick tier: two pairs with one stem, duplicate groups generating the same counted name
        plans += [("akai files", ["A L", "A-L", "A R", "A-R", "A"], False, False, "akai", 4),
                  ("roland samples", ["A L", "A-L", "A R", "A-R", "A (2)"], False, False, "other", 4),
                  ("cdda titles", ["A L", "A R", "A-L", "A-R", "A"], False, True, "other", 4)]       # L/R titles must NOT be merged
    for label, pool, is_dir, nocomb, kind, k in plans:
        res = chk.run_model(naming.model(pool, k, is_dir, kind, no_combine=nocomb), label=f"design: {label}, <= {k} of {len(pool)} names",
                            timeout_s=3000)
        cases = res.cases
        picked = naming.pick(cases, budget, chk.seed + 3)
        if k == 4 and len(pool) <= 5:        # targeted pool: every 4-sibling sequence with two duplicates or two L/R pairs, unstrided
            picked = [c for c in cases if len(c["names"]) == 4 and naming.collision_rich([naming.S(n) for n in c["names"]])]
        for i, c in enumerate(picked):
            names = [naming.S(n) for n in c["names"]]
            seed = chk.seed + i
            outs = [naming.S(o["name"]) for o in c["outputs"]]
            payload = {"names": names, "plan": label, "seed": seed}
            key = (label, tuple(names))
            if label == "akai files":
                export_and_judge(chk, key, lambda w: write_image(w, aw.build_image(naming.akai_files_case(names), seed)),
                                 [o + ".wav" for o in outs], "A/VOL/", label, payload)
            elif label == "akai volumes":
                export_and_judge(chk, key, lambda w: write_image(w, aw.build_image(naming.akai_dirs_case(names, same_child=True), seed)),
                                 [f"{o}/S0.wav" for j, o in enumerate(outs)], "A/", label, payload)
            elif label == "roland samples":
                export_and_judge(chk, key, lambda w: write_image(w, rw.build_image(naming.roland_files_case(names), seed)),
                                 [o + ".wav" for o in outs], "Vol/Perf/", label, payload)
            elif label == "roland volumes":
                export_and_judge(chk, key, lambda w: write_image(w, rw.build_image(naming.roland_dirs_case(names, "volume", same_child=True), seed)),
                                 [f"{o}/P/Smp.wav" for j, o in enumerate(outs)], "", label, payload)
            elif label == "roland performances":
                export_and_judge(chk, key, lambda w: write_image(w, rw.build_image(naming.roland_dirs_case(names, "performance", same_child=True), seed)),
                                 [f"{o}/Smp.wav" for j, o in enumerate(outs)], "Vol/", label, payload)
            else:
                lines, binlen = naming.cue_lines(names)

                def b(w):
                    return cue.write_pair(w, cue.render(lines, 0, seed), binlen, seed)[0]
                export_and_judge(chk, key, b, [o + ".wav" for o in outs], "", label, payload)
    cli.check(chk, "export")      # the destination reaches export through the command line as typed; nothing is written outside it (spec/Cli.tla)
    chk.exhaustive = True
    chk.sample({"cue_titles": ["../X", "a/b", "A"], "predicted_files": ["X.wav", "a b.wav", "A.wav"]})
    chk.assumptions += ["path components are judged with the property's own predicate (ASCII \\w); exact names are compared with the "
                        "specification as drift only", "the partition level of AKAI images is fixed by the tool to A:, B:, ..."]


def replay(chk: Check, path: str):
    rec = json.load(open(path))["case"]
    names, label, seed = rec["names"], rec["plan"], rec["seed"]
    is_dir = "volumes" in label or "performances" in label
    res = chk.run_model(naming.model(sorted(set(names)), len(names), is_dir, "akai" if "akai" in label else "other",
                                     no_combine="cdda" in label), label="replay")
    chk.tier = "thorough"
    for c in res.cases:
        if [naming.S(n) for n in c["names"]] == names:
            outs = [naming.S(o["name"]) for o in c["outputs"]]
            payload = {"names": names, "plan": label, "seed": seed}
            if label == "akai files":
                export_and_judge(chk, ("r",), lambda w: write_image(w, aw.build_image(naming.akai_files_case(names), seed)), [o + ".wav" for o in outs], "A/VOL/", label, payload)
            elif label == "akai volumes":
                export_and_judge(chk, ("r",), lambda w: write_image(w, aw.build_image(naming.akai_dirs_case(names, same_child=True), seed)), [f"{o}/S0.wav" for j, o in enumerate(outs)], "A/", label, payload)
            elif label == "roland samples":
                export_and_judge(chk, ("r",), lambda w: write_image(w, rw.build_image(naming.roland_files_case(names), seed)), [o + ".wav" for o in outs], "Vol/Perf/", label, payload)
            elif label == "roland volumes":
                export_and_judge(chk, ("r",), lambda w: write_image(w, rw.build_image(naming.roland_dirs_case(names, "volume", same_child=True), seed)), [f"{o}/P/Smp.wav" for j, o in enumerate(outs)], "", label, payload)
            elif label == "roland performances":
                export_and_judge(chk, ("r",), lambda w: write_image(w, rw.build_image(naming.roland_dirs_case(names, "performance", same_child=True), seed)), [f"{o}/Smp.wav" for j, o in enumerate(outs)], "Vol/", label, payload)
            else:
                lines, binlen = naming.cue_lines(names)
                export_and_judge(chk, ("r",), lambda w: cue.write_pair(w, cue.render(lines, 0, seed), binlen, seed)[0], [o + ".wav" for o in outs], "", label, payload)
