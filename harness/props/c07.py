"""C07 - allocation chains resolve to exactly the linked sectors, and always terminate.

Specification: spec/AllocTable.tla (exactness, exhaustive over all small tables, recursive form)
               spec/AllocWalk.tla  (termination as liveness, step-wise form)
Binding: every table TLC enumerates is replayed into the real decoders / get_path / FileStream,
         comparing with the specification's prediction for every start sector; the same cases are
         embedded into tables of the real size (11386 / 65536 entries).
"""
from __future__ import annotations

import io
import json
import random
import signal
import types
import zlib
from typing import Any, Dict, List

from .. import tlc
from ..core import Check
from .. import repo  # noqa: F401  (puts /repo on sys.path)

SWITCHES = dict(SatInstallOnVisited=True, SatInstallAtTableEnd=True, PathGuardIncrements=True, RolandWalkBounded=True)
AKAI_OOR = 12288          # a word that is neither special nor < 11386
ROL_OOR_SMALL = 20


def akai_alphabet(n: int, v2: bool = True):
    a = {0, 49152, 16384, AKAI_OOR} | set(range(1, n))
    if v2:
        a.add(32768)
    return a


def roland_alphabet(n: int, hi: int):
    return {0, 1, 65527, 65528, ROL_OOR_SMALL} | set(range(2, hi))


def table_cfg(kind: str, n: int, alphabet, lo: int, hi: int, emit: bool, stride=1, phase=0, sw=None) -> str:
    c = dict(N=n, Kind=kind, Alphabet=alphabet, Lo=lo, Hi=hi, EmitCases=emit, Stride=stride, Phase=phase)
    c.update(SWITCHES)
    c.update(sw or {})
    return tlc.cfg_text(constants=c, invariants=["WellFormedChainResolved", "AlwaysTerminates",
                                                 "DecodedLinksAcyclic", "Emit"])


from ..repo import Hang, with_watchdog  # noqa: E402,F401  (shared CPU-time watchdog)


# ---- driving the real code ------------------------------------------------------------------
def roland_unused_truthful(tbl: List[int]) -> int:
    """What a real disk stores in word 1 of the FAT: the clusters that are not allocated."""
    n = len(tbl)
    return (n - 2) - sum(1 for w in tbl[2:n - 9] if w != 0)


def decode_real(kind: str, tbl: List[int], stream=None, unused=None):
    """-> ("ok", fat_object) | ("error", text) | ("hang", "")
    unused: the header's count of unused clusters (Roland); the specification's decoder does not consult it"""
    if kind == "akai":
        from construct import Int16ul
        from smpl_extract.akai.sat import SegmentAllocationTableAdapter
        ad = SegmentAllocationTableAdapter(stream, Int16ul[len(tbl)])

        def f():
            return ad._decode(list(tbl), {}, "")
    else:
        from construct.core import ConstructError
        import smpl_extract.roland.s7xx.fat as rfat
        n = len(tbl)
        cont = types.SimpleNamespace(
            fat_entries=list(tbl),
            metadata=types.SimpleNamespace(fat_id=tbl[0], num_unused_clusters=tbl[1] if unused is None else unused,
                                           version_flag_1=tbl[-2], version_flag_2=tbl[-1]),
            stream_size=0, fat_data_stream=stream)

        def f():
            old = rfat.FAT_NUM_ENTRIES
            rfat.FAT_NUM_ENTRIES = n
            try:
                return rfat.FatAreaParser._decode(cont, {}, "").fat
            finally:
                rfat.FAT_NUM_ENTRIES = old
    try:
        return "ok", with_watchdog(f)
    except Hang:
        return "hang", ""
    except MemoryError:
        return "hang", "memory"
    except Exception as e:  # ConstructError and anything else
        return "error", f"{type(e).__name__}: {e}"


def path_real(fat, start: int):
    from smpl_extract.util.fat import InvalidFatDefinition, RequestedInvalidSector
    try:
        return {"kind": "path", "path": with_watchdog(lambda: list(fat.get_path(start)))}
    except Hang:
        return {"kind": "hang"}
    except MemoryError:
        return {"kind": "hang"}
    except RequestedInvalidSector:
        return {"kind": "invalid_sector"}
    except InvalidFatDefinition:
        return {"kind": "broken"}
    except Exception as e:
        return {"kind": "exception", "text": f"{type(e).__name__}: {e}"}


def stream_bytes(path: List[int], n: int, sector: int = 4) -> bytes:
    """What a FileStream over `path` yields (read in one go and through readall)."""
    from smpl_extract.util.fat import FileStream
    base = b"".join(bytes(((k * 16 + j) % 251 + 1) for j in range(sector)) for k in range(n + 1))
    fs = FileStream(io.BytesIO(base), sector, list(path))
    a = fs.read(sector * len(path))
    fs.seek(0, 0)
    b = fs.readall()
    want = b"".join(base[k * sector:(k + 1) * sector] for k in path)
    return a, b, want


def replay_case(chk: Check, case: Dict[str, Any], tbl=None, shift=lambda k: k, label="small", header=None):
    """Compare the real code with the specification's prediction on one table (all starts)."""
    kind = case["kind"]
    table = tbl if tbl is not None else case["tbl"]
    if kind == "roland" and header is None:
        # the FAT header's count of unused clusters is not part of the allocation (AllocTable.tla never reads it): every
        # table is judged with the count a real disk would carry, and one table in four also with 0 and with an overstated count
        replay_case(chk, case, tbl, shift, label, header=roland_unused_truthful(table))
        if zlib.crc32(repr(case["tbl"]).encode()) % 4 == 0:
            replay_case(chk, case, tbl, shift, label + "/count=0", header=0)
            replay_case(chk, case, tbl, shift, label + "/count=all", header=len(table) - 2)
        return
    status, fat = decode_real(kind, table, unused=header)
    key = (label, kind, tuple(case["tbl"]))
    wf_any = any(s["expected"] for s in case["starts"])
    chk.evaluated(key, nontrivial=wf_any or case["decode"]["kind"] != "ok")
    agreed = True
    cj = {"kind": kind, "tbl": case["tbl"], "n": case["n"], "embedding": label}
    if status == "hang":
        chk.violation(cj, f"{kind} table decode does not terminate (watchdog) on {case['tbl']}")
        return
    spec_dec = case["decode"]["kind"]
    if status == "error":
        if case["clean"]:
            chk.violation(cj, f"{kind} decode reports an error on a table without malformed chains: {fat}")
            return
        if spec_dec != "error":
            chk.drift("decode_error_where_spec_decodes")
            agreed = False
        if agreed:
            chk.agree()
        return
    if spec_dec != "ok":
        # code decoded a table the specification refuses; only a drift unless something hangs below
        chk.drift("decode_ok_where_spec_errors")
        agreed = False
    for s in case["starts"]:
        start = shift(s["start"])
        got = path_real(fat, start)
        if got["kind"] == "hang":
            chk.violation(dict(cj, start=s["start"]), f"get_path({start}) does not terminate on {kind} table {case['tbl']}")
            agreed = False
            continue
        if got["kind"] == "exception":
            chk.violation(dict(cj, start=s["start"]), f"get_path({start}) raised {got['text']}")
            agreed = False
            continue
        exp = [shift(x) for x in s["expected"]]
        if exp:
            if got != {"kind": "path", "path": exp}:
                chk.violation(dict(cj, start=s["start"], expected=exp, got=got),
                              f"well-formed chain from {start} in {kind} table {table if len(table) < 20 else case['tbl']}: "
                              f"expected {exp}, code resolved {got}")
                agreed = False
                continue
            if label.startswith("small"):
                try:
                    a, b, want = stream_bytes(exp, len(table))
                    bad = None if (a == want and b == want) else "does not yield the concatenation of its sectors"
                except Exception as e:
                    bad = f"raised {type(e).__name__}: {e} when read to its end"
                if bad:
                    chk.violation(dict(cj, start=s["start"]), f"FileStream over {exp} {bad}")
                    agreed = False
                    continue
        if spec_dec == "ok":
            sp = dict(s["spec"])
            if "path" in sp:
                sp["path"] = [shift(x) for x in sp["path"]]
            if start != s["start"] and sp["kind"] == "invalid_sector":
                continue  # out-of-range start of the small table is in range at real size
            if got != sp:
                chk.drift("path_differs_on_malformed_chain")
                chk.extra.setdefault("drift_examples", [])
                if len(chk.extra["drift_examples"]) < 5:
                    chk.extra["drift_examples"].append({"tbl": case["tbl"], "start": start, "got": got, "spec": sp, "emb": label})
                agreed = False
    if agreed:
        chk.agree()


# ---- embedding small tables into real-size ones -----------------------------------------------
def embed_akai(case):
    real = 11386
    n = case["n"]
    off = real - n
    tbl = [0] * off + [w + off if 0 < w < n else w for w in case["tbl"]]
    return tbl, (lambda k: k + off)


def embed_roland(case):
    real = 65536
    n = case["n"]
    # at the real size every word below 0xfff7 is an in-range link and the last nine entries
    # (0xfff7..) cannot be linked to: cases using either have no real-size counterpart
    if any(w == ROL_OOR_SMALL or (n - 9 <= w < n) for w in case["tbl"]):
        return None
    off = real - n

    def m(k):
        return k if k < n - 9 else k + off
    tbl = [0] * real
    for k, w in enumerate(case["tbl"]):
        tbl[m(k)] = m(w) if 2 <= w < n else w
    return tbl, m


def pack_akai(cases, rng):
    """Many small tables side by side in one real-size SAT, separated by a free sector."""
    real = 11386
    tbl = [0] * real
    placed = []
    pos = 1
    for c in cases:
        n = c["n"]
        if pos + n + 1 >= real - 8:
            break
        if AKAI_OOR in c["tbl"] and False:
            continue
        # a reserved run touching the end of its block must see a non-reserved word next: block is followed by FREE,
        # which the decoder treats like the end of the small table only through switch D3 -> skip such cases
        if c["tbl"][-1] in (16384, 32768):
            continue
        off = pos
        for k, w in enumerate(c["tbl"]):
            tbl[off + k] = w + off if 0 < w < n else w
        placed.append((c, off))
        pos += n + 1
    return tbl, placed


def run(chk: Check):
    thorough = chk.tier == "thorough"
    rng = random.Random(chk.seed)
    chk.rule = ("TLC enumerates every raw word table over the alphabet {free, end, reserved(std,v2), error, every in-range link, "
                "out-of-range} for N entries (AKAI) / K usable heads + 2 walk-only entries (Roland); one case = one table with all "
                "start sectors; non-trivial = the table contains at least one well-formed chain or is refused by the decoder; "
                "distinct by (embedding, kind, table)")
    # 1. termination as liveness (step-wise specification)
    live = [("path", 3, {0}, 0, 0), ("akai", 4, akai_alphabet(4), 0, 4), ("roland", 13, roland_alphabet(13, 5), 2, 5)]
    if thorough:
        live += [("path", 4, {0}, 0, 0), ("roland", 14, roland_alphabet(14, 6), 2, 6)]
    for kind, n, alpha, lo, hi in live:
        c = dict(N=n, Kind=kind, Alphabet=alpha, Lo=lo, Hi=hi, PathGuardIncrements=True, RolandWalkBounded=True)
        chk.run_tlc("AllocWalk", tlc.cfg_text(spec="Spec", constants=c, invariants=["TypeOK"], properties=["Terminates"]),
                    label=f"liveness {kind} N={n}", coverage=True, timeout_s=1500)
    chk.require_coverage("AllocWalk", ["PathStep", "RolandStep", "AkaiStep", "ForStep"])

    # 2. exactness: exhaustive design check + case emission
    runs = [("akai", 4, akai_alphabet(4), 0, 4, 1), ("roland", 14, roland_alphabet(14, 7), 2, 7, 1)]
    if thorough:
        runs = [("akai", 4, akai_alphabet(4), 0, 4, 1), ("akai", 5, akai_alphabet(5), 0, 5, 1),
                ("akai", 6, akai_alphabet(6), 0, 6, 16),
                ("roland", 14, roland_alphabet(14, 7), 2, 7, 1), ("roland", 15, roland_alphabet(15, 8), 2, 8, 8)]
    all_cases: Dict[str, List[dict]] = {"akai": [], "roland": []}
    for kind, n, alpha, lo, hi, stride in runs:
        res = chk.run_tlc("AllocTable", table_cfg(kind, n, alpha, lo, hi, True, stride, chk.seed % stride),
                          label=f"design {kind} N={n} stride={stride}", timeout_s=3000, heap="8g")
        if not res.cases:
            raise tlc.TlcError("no cases emitted")
        for case in res.cases:
            replay_case(chk, case)
        all_cases[kind] += res.cases
        chk.sample({"kind": kind, "tbl": res.cases[len(res.cases) // 3]["tbl"],
                    "starts": res.cases[len(res.cases) // 3]["starts"][:2]})
    chk.exhaustive = True

    # 3. the same cases at the real table sizes
    k_a = 4000 if thorough else 600
    k_r = 300 if thorough else 40
    for case in rng.sample(all_cases["akai"], min(k_a, len(all_cases["akai"]))):
        tbl, sh = embed_akai(case)
        replay_case(chk, case, tbl, sh, "real-size-akai")
    rol = [c for c in all_cases["roland"]]
    for case in rng.sample(rol, min(k_r, len(rol))):
        e = embed_roland(case)
        if e:
            replay_case(chk, case, e[0], e[1], "real-size-roland")
    # packed: ~1900 small tables in one SAT
    for _ in range(6 if thorough else 2):
        pool = rng.sample(all_cases["akai"], min(2400, len(all_cases["akai"])))
        tbl, placed = pack_akai(pool, rng)
        status, fat = decode_real("akai", tbl)
        if status != "ok":
            chk.violation({"kind": "akai", "packed": [c["tbl"] for c, _ in placed][:50]}, f"packed real-size SAT: decode {status} {fat}")
            continue
        for c, off in placed:
            chk.evaluated(("packed", tuple(c["tbl"]), off), nontrivial=any(s["expected"] for s in c["starts"]))
            ok = True
            for s in c["starts"]:
                if not s["expected"]:
                    continue
                exp = [x + off for x in s["expected"]]
                got = path_real(fat, s["start"] + off)
                if got != {"kind": "path", "path": exp}:
                    ok = False
                    chk.violation({"kind": "akai", "tbl": c["tbl"], "n": c["n"], "start": s["start"], "embedding": f"packed@{off}"},
                                  f"packed real-size SAT: chain from {s['start']}+{off}: expected {exp} got {got}")
            if ok:
                chk.agree()

    # 4. sensitivity of the specification (thorough): the as-implemented switch values must be refuted
    if thorough:
        killed = {}
        for name, kind, n, alpha, lo, hi in [("SatInstallOnVisited", "akai", 4, akai_alphabet(4), 0, 4),
                                             ("SatInstallAtTableEnd", "akai", 4, akai_alphabet(4), 0, 4),
                                             ("RolandWalkBounded", "roland", 14, roland_alphabet(14, 7), 2, 7)]:
            res = chk.run_tlc("AllocTable", table_cfg(kind, n, alpha, lo, hi, False, sw={name: False}),
                              expect_ok=False, label=f"sensitivity {name}=FALSE", timeout_s=1200)
            killed[name] = (not res.ok)
        c = dict(N=3, Kind="path", Alphabet={0}, Lo=0, Hi=0, PathGuardIncrements=False, RolandWalkBounded=True)
        res = chk.run_tlc("AllocWalk", tlc.cfg_text(spec="Spec", constants=c, properties=["Terminates"]),
                          expect_ok=False, label="sensitivity PathGuardIncrements=FALSE")
        killed["PathGuardIncrements"] = (not res.ok)
        chk.extra["spec_mutants_killed"] = killed
        if not all(killed.values()):
            raise tlc.TlcError(f"sensitivity self-test failed: {killed}")
    chk.assumptions += [
        "Roland decoder driven with the module constant FAT_NUM_ENTRIES patched to the model's N (the literal 9 in range(2, N-9) is kept)",
        "a call that runs longer than 2 s on a table of <= 65536 entries is counted as non-terminating",
        "real-size coverage is by embedding the exhaustively enumerated small tables (shifted / packed), not by enumerating 11386-entry tables",
    ]


def replay(chk: Check, path: str):
    with open(path) as fh:
        rec = json.load(fh)
    c = rec["case"]
    kind, n, tblw = c["kind"], c["n"], c["tbl"]
    lo, hi = (0, n) if kind == "akai" else (2, n - 7)
    # re-derive the prediction for exactly this table from the specification
    files = {}
    alpha = set(tblw[lo:hi])
    cfgt = table_cfg(kind, n, alpha, lo, hi, True)
    res = chk.run_tlc("AllocTable", cfgt, label="replay", expect_ok=False)
    for case in res.cases:
        if case["tbl"] == tblw:
            replay_case(chk, case)
            emb = c.get("embedding", "small")
            if emb.startswith("real-size-akai"):
                t, sh = embed_akai(case)
                replay_case(chk, case, t, sh, "real-size-akai")
            if emb.startswith("real-size-roland"):
                e = embed_roland(case)
                if e:
                    replay_case(chk, case, e[0], e[1], "real-size-roland")
