"""C08 - byte-window views behave as read-only files under any seek/read history.

Specification: spec/Streams.tla.  Design check: all invariants over the COMPLETE (depth-unbounded)
state graph of every tiny configuration.  Binding: behaviours (exhaustive depth 2, simulated depth
8-14, medium configurations with multi-sector reads) replayed call by call into the real classes.
"""
from __future__ import annotations

import json
from typing import Dict, List

from .. import tlc, streams
from ..core import Check
from .. import repo  # noqa: F401


def classify(case: dict, i: int, h: dict, obs: dict, diff: str):
    """Property-level verdict for a step on which code and specification differ."""
    cfg = case["cfg"]
    complete = cfg["flen"] >= cfg["base"]
    spec_err, code_err = h["err"], obs["err"]
    if complete:
        if spec_err and code_err:
            # both reject (e.g. different exception class): the property only asks for "an error",
            # but the position must be unchanged
            return ("violation", diff) if obs["after"] != obs["before"] else ("drift", "error_class")
        return "violation", diff
    # truncated file: the property (C15 side) only forbids returning bytes that are not the logical slice
    if not code_err and h["op"]["op"] in ("read", "readall"):
        lg = case["logical"][h["op"]["v"] - 1]
        p = obs["before"]
        got = list(obs["data"])
        want = [streams.token_byte(t) for t in lg[p:p + len(got)]]
        if got != want:
            return "violation", f"truncated file: returned bytes are not the logical slice ({diff})"
    return "drift", "short_file_behaviour"


def replay_cases(chk: Check, cases: List[dict], label: str):
    for case in cases:
        cfg = case["cfg"]
        key = (label, json.dumps(cfg, sort_keys=True, default=list), json.dumps([h["op"] for h in case["hist"]], sort_keys=True))
        nontriv = any(h["op"]["op"] in ("read", "readall") and (h["data"] or h["err"]) for h in case["hist"])
        chk.evaluated(key, nontrivial=nontriv)
        f, objs = streams.build(cfg)
        ok = True
        for i, h in enumerate(case["hist"]):
            obs = streams.run_op(cfg, objs, h["op"])
            d = streams.compare_step(h, obs)
            if d:
                kind, text = classify(case, i, h, obs, d)
                if kind == "violation":
                    kinds = [v["k"] for v in cfg["views"]]
                    chk.violation({"cfg": _plain(cfg), "ops": [x["op"] for x in case["hist"][:i + 1]], "step": i},
                                  f"views {kinds}: step {i} {h['op']}: {text}")
                else:
                    chk.drift(text)
                ok = False
                break
        if ok:
            chk.agree()


def _plain(cfg):
    c = dict(cfg)
    c["targets"] = sorted(cfg["targets"])
    return c


def run(chk: Check):
    thorough = chk.tier == "thorough"
    chk.rule = ("design: complete state graph (all histories, no depth bound) of every tiny configuration; replay: every "
                "history of 2 calls on the top view of each tiny configuration plus simulated behaviours of 8-14 calls on "
                "tiny, truncated-file and medium (sector 16, multi-sector reads) configurations; a behaviour is non-trivial "
                "if it contains a read returning data or an error; distinct by (configuration, operation sequence)")
    tiny = streams.tiny_configs(wide=thorough)
    short = streams.short_configs()
    mc = streams.mc_module(tiny + short)
    # 1. design: all invariants on the complete state graph
    chk.run_tlc("MCStreams", streams.streams_cfg(depth=0, keep=False, opviews="targets", emit=False,
                                                 invariants=streams.ALL_INVARIANTS),
                files={"MCStreams.tla": mc}, label="design: complete state graph, tiny+truncated configurations",
                timeout_s=3000, coverage=False, heap="8g")
    chk.exhaustive = True
    # 1b. the cursor arithmetic for ARBITRARY window sizes and arguments (unbounded integers): inductive invariant with Apalache
    apa = tlc.apalache_inductive("Cursor")
    chk.extra["apalache_cursor_inductive_invariant"] = apa
    if apa.get("available") and not (apa.get("base") and apa.get("step")):
        raise tlc.TlcError(f"Cursor.tla: the inductive invariant does not hold: {apa}")
    # 2. replay: exhaustive depth 2 on the top view
    res = chk.run_tlc("MCStreams", streams.streams_cfg(depth=2, keep=True, opviews="top", emit=True,
                                                       invariants=streams.ALL_INVARIANTS + ["Emit"]),
                      files={"MCStreams.tla": mc}, label="behaviours: exhaustive depth 2, top view", timeout_s=1200)
    replay_cases(chk, res.cases, "exh2")
    if res.cases:
        c = res.cases[len(res.cases) // 2]
        chk.sample({"views": [v["k"] for v in c["cfg"]["views"]], "ops": [h["op"] for h in c["hist"]],
                    "predicted": [{"err": h["err"], "data": h["data"], "after": h["after"]} for h in c["hist"]]})
    # 3. replay: simulated long behaviours, operations on all target views
    for depth, num, cfgs, lab in ([(8, 200, tiny + short, "tiny"), (10, 60, streams.medium_configs(), "medium")] if not thorough else
                                  [(8, 1500, tiny + short, "tiny"), (14, 1500, tiny + short, "tiny-long"),
                                   (12, 500, streams.medium_configs(), "medium"), (40, 200, streams.medium_configs(), "medium-long")]):
        mcx = streams.mc_module(cfgs)
        res = chk.run_tlc("MCStreams", streams.streams_cfg(depth=depth, keep=True, opviews="targets", emit=True,
                                                           invariants=streams.ALL_INVARIANTS + ["Emit"]),
                          files={"MCStreams.tla": mcx}, simulate=f"num={num}", depth=depth + 2, seed=chk.seed,
                          workers=1, label=f"behaviours: simulate {lab} depth {depth} num {num}", timeout_s=3000)
        if len(res.cases) < num:
            raise tlc.TlcError(f"simulation emitted only {len(res.cases)} behaviours")
        replay_cases(chk, res.cases, f"sim-{lab}-{depth}")
    # 4. sensitivity of the specification
    if thorough:
        killed = {}
        for name, kw in (("ReseekTest", dict(reseek=False)), ("ZeroReadAtChainEnd", dict(zero_read=False))):
            r = chk.run_tlc("MCStreams", streams.streams_cfg(depth=0, keep=False, opviews="targets", emit=False,
                                                             invariants=streams.ALL_INVARIANTS, **kw),
                            files={"MCStreams.tla": mc}, expect_ok=False, label=f"sensitivity {name}=FALSE", timeout_s=1200)
            killed[name] = not r.ok
        chk.extra["spec_mutants_killed"] = killed
        if not all(killed.values()):
            raise tlc.TlcError(f"sensitivity self-test failed: {killed}")
    chk.assumptions += [
        "views are non-empty, windows lie inside their parent, reversed views have a size that is a multiple of the sample width, sector views are not stacked on reversed views",
        "the 2352-byte raw-sector view is exercised with geometry scaled to header 1-2 / body 2-16 / tail 1-2 by patching the module constants of alcohol/mdf.py",
        "byte k of the file is the token k (mod 251), so every returned byte names its origin",
    ]


def replay(chk: Check, path: str):
    rec = json.load(open(path))
    c = rec["case"]
    cfg = dict(c["cfg"])
    cfg["targets"] = set(cfg["targets"])
    ops = c["ops"]
    # ask the specification for its prediction of exactly this behaviour: restrict the alphabet by replaying in the harness
    mc = streams.mc_module([cfg])
    res = chk.run_tlc("MCStreams", streams.streams_cfg(depth=len(ops), keep=True, opviews="targets", emit=True,
                                                       invariants=streams.ALL_INVARIANTS + ["Emit"]),
                      files={"MCStreams.tla": mc}, label="replay", timeout_s=1200)
    want = json.dumps(ops, sort_keys=True)
    cases = [x for x in res.cases if json.dumps([h["op"] for h in x["hist"]], sort_keys=True) == want]
    replay_cases(chk, cases, "replay")
