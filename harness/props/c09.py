"""C09 - listing and export do not depend on the container the image is wrapped in.  Spec: spec/Container.tla
(+ the mdf view of Streams.tla; images and their expected exports come from AkaiImage.tla / RolandImage.tla)."""
from __future__ import annotations

import hashlib
import json
import os
import shutil
from typing import Dict, List

from .. import tlc
from ..core import Check
from .. import repo
from ..writers import akai as aw, roland as rw, containers as cw
from . import c01, c02
from .c10 import table_names


def tree_ls(image, limit: int = 60) -> Dict[str, str]:
    """ls at every node reachable through printed names (breadth first, bounded)"""
    outs: Dict[str, str] = {}
    queue = [""]
    while queue and len(outs) < limit:
        p = queue.pop(0)
        try:
            o = repo.ls(image, p)
        except BaseException as e:  # noqa
            o = f"EXC {type(e).__name__}: {e}"
        outs[p] = o
        for n in table_names(o):
            if n.strip():
                queue.append((p + "/" if p else "") + n)
    return outs


def observe(path: str, work: str) -> dict:
    obs = {"kind": "", "ls": {}, "files": {}, "lines": [], "err": ""}
    try:
        img = repo.open_image(path)
        obs["kind"] = type(img).__name__
        obs["ls"] = tree_ls(img)
        dest = os.path.join(work, "out_" + os.path.basename(path))
        obs["lines"] = sorted(repo.export(repo.open_image(path), dest))
        obs["files"] = {k: hashlib.sha1(v).hexdigest() for k, v in repo.walk_files(dest).items()} if os.path.isdir(dest) else {}
    except BaseException as e:  # noqa
        obs["err"] = f"{type(e).__name__}: {e}"
    return obs


def check_image(chk: Check, image: bytes, want_kind: str, label: str, payload: dict, spec_compare=None):
    work = tlc.scratch_dir("c09_")
    try:
        paths = cw.write_all(image, work)
        obs = {enc: observe(p, work) for enc, p in paths.items()}
        chk.evaluated((label, hashlib.sha1(image).hexdigest()), nontrivial=len(image) % 2048 != 0 or True)
        problems = []
        ref = obs["raw"]
        if ref["err"]:
            problems.append(f"raw: {ref['err']}")
        if ref["kind"] != want_kind:
            problems.append(f"raw image recognised as {ref['kind']}, expected {want_kind}")
        for enc, o in obs.items():
            if enc == "raw":
                continue
            if o["err"]:
                problems.append(f"{enc}: {o['err']}")
            if o["kind"] != ref["kind"]:
                problems.append(f"{enc}: recognised as {o['kind']}, raw as {ref['kind']}")
            if o["ls"] != ref["ls"]:
                d = [k for k in set(o["ls"]) | set(ref["ls"]) if o["ls"].get(k) != ref["ls"].get(k)]
                problems.append(f"{enc}: ls differs from raw at {sorted(d)[:4]}")
            if o["lines"] != ref["lines"] or o["files"] != ref["files"]:
                problems.append(f"{enc}: exported files differ from raw ({len(o['files'])} vs {len(ref['files'])} files)")
        if spec_compare and not problems:
            problems += spec_compare(os.path.join(work, "out_raw.img"))
        if problems:
            chk.violation(payload, f"{label}: " + "; ".join(problems)[:1200])
        else:
            chk.agree()
    finally:
        shutil.rmtree(work, ignore_errors=True)


def run(chk: Check):
    thorough = chk.tier == "thorough"
    chk.rule = ("Container.tla: every logical image of <= 5-6 tokens x 6 encodings (scaled geometry) for SameKind / SameLogicalBytes / "
                "AllAudioCueIsCdda; replay: TLC-generated AKAI and Roland images (C01/C02 generators), sizes that are and are not multiples of "
                "2048 (trailing bytes / odd cluster counts), each written as raw, MODE1/2352, MDX, cue->raw, cue->2352: kind, ls at every "
                "node and exported files must agree across the five and with the specification's prediction")
    chk.run_tlc("Container", tlc.cfg_text(constants=dict(Hdr=1, Body=2, Trl=1, XHdr=3, MaxLen=6 if thorough else 5, EmitCases=False),
                                          invariants=["SameKind", "SameLogicalBytes", "AllAudioCueIsCdda"]),
                label="design: detection cascade and logical views, scaled geometry")
    chk.run_tlc("Container", tlc.cfg_text(constants=dict(Hdr=2, Body=3, Trl=2, XHdr=4, MaxLen=7 if thorough else 5, EmitCases=False),
                                          invariants=["SameKind", "SameLogicalBytes", "AllAudioCueIsCdda"]),
                label="design: second geometry")
    na, nr = (60, 24) if thorough else (9, 6)
    acases = c01.generate(chk, 64 if not thorough else 400, chk.seed + 9, label="AKAI images for C09", nsect=20, maxparts=2, maxvols=1, maxfiles=2)
    acases = [c for c in acases if c["expected"]] or acases          # images that export something
    step = max(1, len(acases) // na)
    for i, case in enumerate(acases[::step][:na]):
        image = aw.build_image(case, chk.seed + i)
        trail = 0
        if i % 3 == 1:
            trail = 1000 + i
            image += bytes((7 * j) & 0xFF for j in range(trail))        # not a multiple of 2048
        elif i % 3 == 2 and case["needs"]:
            # trimmed right behind the last byte any exported file depends on: live data in the last partial 2048-byte sector
            trail = -max(n["need"] for n in case["needs"])
            image = image[:-trail]
        exp = c01.expected_files(case, image)

        def cmp(outdir, exp=exp):
            files = repo.walk_files(outdir)
            return c01.compare_export(exp, sorted(files), files, "")
        check_image(chk, image, "AkaiImageParser", "akai", {"case": case, "seed": chk.seed + i, "kind": "akai", "trail": trail}, cmp)
    rcases = c02.generate(chk, 40 if not thorough else 200, chk.seed + 10, label="Roland images for C09")
    step = max(1, len(rcases) // nr)
    for i, case in enumerate(rcases[::step][:nr]):
        image = rw.build_image(case, chk.seed + i)
        trail = 0
        if i % 3 == 1:
            trail = 777
            image += bytes(trail)
        elif i % 3 == 2:
            ends = [rw.A["data_fat"] + x["cluster"] * case["C"] + x["off"] + x["len"] for e in case["expected"] for sm in e["samples"] for x in sm["extents"]]
            if ends:
                trail = -max(ends)
                image = image[:-trail]

        def cmp(outdir, case=case, image=image):
            files = repo.walk_files(outdir)
            return c02.compare(case, image, sorted(files), files, "")
        check_image(chk, image, "RolandS7xxImage", "roland", {"case": case, "seed": chk.seed + i, "kind": "roland", "trail": trail}, cmp)
    chk.sample({"encodings": ["raw", "mdf", "mdx", "cue_raw", "cue_mdf"], "akai_images": min(na, len(acases)), "roland_images": min(nr, len(rcases))})
    chk.assumptions += ["MODE1/2352 sectors carry the 12-byte sync, a 3-byte address, mode byte 1, 2048 data bytes and 288 arbitrary tail bytes; "
                        "the last sector is zero padded", "the all-audio cue case is C03/C17's subject and only model-checked here"]


def replay(chk: Check, path: str):
    rec = json.load(open(path))["case"]
    if rec["kind"] == "akai":
        image = aw.build_image(rec["case"], rec["seed"])
        if rec.get("trail", 0) > 0:
            image += bytes((7 * j) & 0xFF for j in range(rec["trail"]))
        elif rec.get("trail", 0) < 0:
            image = image[:-rec["trail"]]
        check_image(chk, image, "AkaiImageParser", "akai", rec)
    else:
        image = rw.build_image(rec["case"], rec["seed"])
        if rec.get("trail", 0) > 0:
            image += bytes(rec["trail"])
        elif rec.get("trail", 0) < 0:
            image = image[:-rec["trail"]]
        check_image(chk, image, "RolandS7xxImage", "roland", rec)
    chk.run_tlc("Container", tlc.cfg_text(constants=dict(Hdr=1, Body=2, Trl=1, XHdr=3, MaxLen=3, EmitCases=False),
                                          invariants=["SameKind", "SameLogicalBytes"]), label="design (replay context)")
