"""C10 - every item `ls` shows can be addressed by the names shown; other paths say so.  Spec: spec/Names.tla
(MakeSafe, the two renaming passes, Tokens / Norm / Lookup of parse_path)."""
from __future__ import annotations

import json
import os
import re
import shutil
from typing import Callable, Dict, List, Optional

from .. import tlc, naming, cue, cli, listing
from ..core import Check
from .. import repo
from ..writers import akai as aw, roland as rw


def table_names(out: str) -> List[str]:
    """first column of an `ls` listing (fixed-width table; names may contain blanks)"""
    lines = out.splitlines()
    if len(lines) < 2 or not lines[0].startswith("Item"):
        return []
    w = lines[0].index("Type")
    return [l[:w - 1].rstrip() if len(l) >= w else l.rstrip() for l in lines[2:] if l.strip()]


class Plan:
    def __init__(self, label, pool, is_dir, nocomb, kind, build, prefixes, ident, extra_children=0):
        self.label, self.pool, self.is_dir, self.nocomb, self.kind = label, pool, is_dir, nocomb, kind
        self.build, self.prefixes, self.ident, self.extra = build, prefixes, ident, extra_children


def ident_akai_file(k, out): return f"samples_cnt: {60 + 1000 * (k + 1)}" in out
def ident_roland_sample(k, out):
    m = re.search(r"start_sample:\s*\n\s*fine: (\d+)", out)
    return bool(m) and int(m.group(1)) == k + 1
def ident_cdda(k, out): return f"num_audio_samples: {588 * (k + 1)}" in out
def ident_akai_vol(k, out): return table_names(out) == [f"S{k}"]
def ident_rol_vol(k, out): return table_names(out) == [f"P{k}"]
def ident_rol_perf(k, out): return table_names(out) == [f"Qq_patch{k}", f"Smp{k}"]


def orphaned(case: dict) -> dict:
    case["img"]["vols"][0]["perfs"] = []          # the volume stays, its performances become orphans
    return case


def plans(thorough: bool) -> List[Plan]:
    A, X, Q = naming.AKAI_POOL, naming.ASCII_POOL, naming.CUE_POOL
    def img(data):
        def b(w):
            p = os.path.join(w, "image.img")
            open(p, "wb").write(data)
            return p
        return b
    return [
        Plan("akai files", A if thorough else A[:9], False, False, "akai",
             lambda names, seed: img(aw.build_image(naming.akai_files_case(names, [60] * len(names)), seed)),
             ["A:/VOL/", "a/vol/", " A: \\VOL\\"], ident_akai_file),
        Plan("akai volumes", A if thorough else A[:9], True, False, "akai",
             lambda names, seed: img(aw.build_image(naming.akai_dirs_case(names), seed)), ["A:/", "A\\\\"], ident_akai_vol),
        Plan("roland samples", X[:18] if thorough else X[:11], False, False, "other",
             lambda names, seed: img(rw.build_image(naming.roland_files_case(names), seed)), ["Vol/Perf/", "Vol\\Perf\\"], ident_roland_sample, 1),
        Plan("roland volumes", X[:18] if thorough else X[6:17], True, False, "other",
             lambda names, seed: img(rw.build_image(naming.roland_dirs_case(names, "volume"), seed)), [""], ident_rol_vol),
        Plan("roland performances", X[:18] if thorough else X[6:17], True, False, "other",
             lambda names, seed: img(rw.build_image(naming.roland_dirs_case(names, "performance"), seed)), ["Vol/"], ident_rol_perf),
        # performances no volume refers to: listed under the pseudo-volume the tool makes up for them
        Plan("roland orphan performances", X[:18] if thorough else X[:7] + X[9:13], True, False, "other",
             lambda names, seed: img(rw.build_image(orphaned(naming.roland_dirs_case(names, "performance")), seed)), ["_Orphan_perf/"], ident_rol_perf),
        Plan("cdda titles", Q[:18] if thorough else Q[4:15], False, True, "other",
             lambda names, seed: (lambda w: cue.write_pair(w, cue.render(naming.cue_lines(names)[0], 0, seed), naming.cue_lines(names)[1], seed)[0]),
             [""], ident_cdda),
    ]


def safe_ls(image, path):
    try:
        return repo.ls(image, path), ""
    except BaseException as e:  # noqa
        return "", f"{type(e).__name__}: {e}"


def check_case(chk: Check, plan: Plan, case: dict, seed: int):
    names = [naming.S(n) for n in case["names"]]
    safe = [naming.S(n) for n in case["safe"]]
    work = tlc.scratch_dir("c10_")
    payload = {"names": names, "plan": plan.label, "seed": seed}
    try:
        ipath = plan.build(names, seed)(work)
        chk.evaluated((plan.label, tuple(names)), nontrivial=len(set(safe)) > 1 or len(names) > 1)
        problems, drift = [], []
        try:
            image = repo.open_image(ipath)
        except BaseException as e:  # noqa
            chk.violation(payload, f"{plan.label} {names}: image could not be opened: {type(e).__name__}: {e}")
            return
        parent = plan.prefixes[0]
        out, err = safe_ls(image, parent)
        if err:
            problems.append(f"ls {parent!r} raised {err}")
        printed = table_names(out)
        shown = printed[plan.extra:] if plan.extra else printed
        if len(set(printed)) != len(printed):
            problems.append(f"printed sibling names are not pairwise distinct: {printed}")
        if shown != safe:
            drift.append("printed_names_differ_from_spec")
        for k, nm in enumerate(shown if len(shown) == len(names) else []):
            if not nm.strip():
                continue
            for pre in plan.prefixes:
                sep = "\\" if "\\" in pre else "/"
                for variant in (pre + nm, pre + " " + nm + "  ", pre + nm + sep, pre + nm + sep + "  ", "  " + pre + nm + " " + sep + " \t"):
                    o, e = safe_ls(image, variant)
                    if e:
                        problems.append(f"ls {variant!r} raised {e}")
                    elif "was not found" in o or not plan.ident(k, o):
                        problems.append(f"ls {variant!r} does not show item #{k} ({names[k]!r}): {o[:120]!r}")
            # separator runs (Names.tla tokeniser: one separator is '/', '\\' or '\\\\'): a longer run holds an empty component,
            # which is the name of no item - such a path is not a join of printed names and must say so
            if k == 0 or len(nm) % 2:
                for run in ("\\" * 3, "\\" * 5, "//"):
                    for variant in {plan.prefixes[0] + nm + run, plan.prefixes[0] + nm + run + "x"} | ({plan.prefixes[0].replace("/", run, 1) + nm} if "/" in plan.prefixes[0].rstrip("/") + "/" and plan.prefixes[0].count("/") else set()):
                        o, e = safe_ls(image, variant)
                        if e:
                            problems.append(f"ls {variant!r} raised {e}")
                        elif "was not found" not in o:
                            problems.append(f"ls {variant!r} holds an empty path component, yet it resolved: {o[:100]!r}")
        for pr in case["probes"]:
            text = naming.S(pr["text"])
            if pr["blank"]:
                continue
            o, e = safe_ls(image, plan.prefixes[0] + text)
            if e:
                problems.append(f"ls of probe {text!r} raised {e}")
                continue
            found = "was not found" not in o
            if pr["hit"] == 0 and found:
                problems.append(f"probe {text!r} is not a printed name, yet it resolved: {o[:100]!r}")
            elif pr["hit"] > 0 and not found:
                drift.append("spec_resolves_code_does_not")
            elif pr["hit"] > 0 and not plan.ident(pr["hit"] - 1, o):
                drift.append("resolves_to_other_item")
        # arbitrary strings never raise
        for junk in ("\u00f1\u540d/\u2603", "/" * 5, "\\\\\\", "x" * 5000, plan.prefixes[0] + "/" + "nope", ":::", "A:/VOL/S/T/U", "\x00", " "):
            o, e = safe_ls(image, junk)
            if e:
                problems.append(f"ls {junk[:20]!r} raised {e}")
        if problems:
            chk.violation(payload, f"{plan.label} {names}: " + "; ".join(problems)[:1200])
        elif drift:
            for d in set(drift):
                chk.drift(d)
        else:
            chk.agree()
    finally:
        shutil.rmtree(work, ignore_errors=True)


def run(chk: Check):
    thorough = chk.tier == "thorough"
    chk.rule = ("TLC checks SiblingNamesDistinct and RoundTrip (every non-blank printed name, with surrounding blanks and either trailing "
                "separator, looks up its own item) for every sequence of <= 3-4 sibling names; each sequence is put into a real tree "
                "(AKAI files/volumes, Roland samples/volumes/performances, CDDA tracks), every item is addressed by its printed name in "
                "several spellings, and probe strings (prefixes, case changes, colon forms, extensions, unrelated unicode) are "
                "resolved by the real ls and compared with the specification's Lookup; the command line itself (spec/Cli.tla): every "
                "argument vector up to 3-5 tokens through the real main(), ls vectors executed and compared with the action called directly")
    k = 4 if thorough else 3
    budget = 300 if thorough else 45
    todo = [(p, p.pool, k) for p in plans(thorough)]
    if not thorough:       # the 4-sibling collisions (two duplicate groups generating the same counted name)
        todo += [(p, ["A L", "A-L", "A"], 4) for p in plans(False) if p.label in ("akai files", "roland samples", "cdda titles")]
    # names that differ only by a sanitised character at their edge (printed alike unless counted): every sequence of <= 3, all replayed
    todo += [(p, ["A", "A*", "(A)", "?A"], 3) for p in plans(thorough) if p.label in ("roland samples", "roland volumes", "cdda titles")]
    for plan, pool, k in todo:
        res = chk.run_model(naming.model(pool, k, plan.is_dir, plan.kind, no_combine=plan.nocomb),
                            label=f"design: {plan.label}, <= {k} of {len(plan.pool)} names", timeout_s=3000)
        picked = naming.pick(res.cases, budget if plan.label != "roland orphan performances" or thorough else 12, chk.seed + 5)
        if k == 3 and len(pool) == 4:        # the edge-character pool: everything
            picked = res.cases
        if k == 4 and len(pool) <= 5:        # targeted pool: every 4-sibling sequence with two duplicate groups, unstrided
            picked = [c for c in res.cases if len(c["names"]) == 4 and naming.collision_rich([naming.S(n) for n in c["names"]])]
        for i, c in enumerate(picked):
            check_case(chk, plan, c, chk.seed + i)
    cli.check(chk, "ls")          # the paths reach ls through the command line as typed (spec/Cli.tla)
    listing.check_table(chk)      # the names can be read off the listing again: column layout of InfoTable (spec/Table.tla)
    chk.exhaustive = True
    chk.sample({"names": ["A:", "A", ":A"], "printed": ["A:", "A", "A (2)"]})
    chk.assumptions += ["items are identified in ls output by a header value / child name unique to each sibling",
                        "only the last path level varies; the levels above it carry fixed plain names"]


def replay(chk: Check, path: str):
    rec = json.load(open(path))["case"]
    plan = [p for p in plans(True) if p.label == rec["plan"]][0]
    res = chk.run_model(naming.model(sorted(set(rec["names"])), len(rec["names"]), plan.is_dir, plan.kind, no_combine=plan.nocomb), label="replay")
    for c in res.cases:
        if [naming.S(n) for n in c["names"]] == rec["names"]:
            check_case(chk, plan, c, rec["seed"])
