"""C11 - sample streams sharing one image file handle do not disturb one another.
Specifications: spec/Streams.tla (the cursor machine with ONE shared file cursor; isolation = ReadReturnsLogicalSlice for every view in
every reachable state of configurations with several target views), spec/Interleave.tla (schedules), and the image specifications
for the expected content of each real stream."""
from __future__ import annotations

import json
import os
import shutil
from typing import Any, Dict, List, Tuple

from .. import tlc, streams, cue, naming
from ..core import Check
from .. import repo
from ..writers import akai as aw, roland as rw, containers as cw
from . import c01, c02

SIZES = {1: 4096, 2: 1000, 3: 8198}


def sharing_configs() -> List[dict]:
    v, c = streams.view, streams.config
    return [
        c(8, [v("chain", 0, slen=2, lst=[0, 2]), v("chain", 0, slen=2, lst=[3, 1]), v("off", 1, size=3, off=1), v("off", 2, size=3, off=1)], targets=[3, 4]),
        c(8, [v("off", 0, size=4, off=0), v("off", 0, size=4, off=4)]),
        c(10, [v("chain", 0, slen=2, lst=[3, 1, 4]), v("wrap", 1, size=5), v("off", 2, size=3, off=1), v("off", 2, size=2, off=3)], targets=[3, 4]),
        c(12, [v("mdf", 0, size=6, slen=2, hdr=1, tail=1), v("chain", 1, slen=2, lst=[2, 0]), v("chain", 1, slen=2, lst=[1]),
               v("off", 2, size=3, off=1), v("off", 3, size=2, off=0)], targets=[4, 5]),
        c(8, [v("chain", 0, slen=2, lst=[2, 0, 3]), v("off", 1, size=4, off=2), v("rev", 2, size=4, width=2), v("off", 1, size=4, off=0)], targets=[3, 4]),
        c(9, [v("off", 0, size=3, off=0), v("off", 0, size=3, off=3), v("off", 0, size=3, off=6)]),
        # two CONTIGUOUS files side by side: a read of one ends exactly where the other's sector begins
        c(12, [v("chain", 0, slen=2, lst=[0, 1, 2]), v("chain", 0, slen=2, lst=[3, 4, 5])]),
        c(12, [v("chain", 0, slen=2, lst=[0, 1, 2]), v("chain", 0, slen=2, lst=[3, 4, 5]), v("off", 1, size=4, off=2), v("off", 2, size=4, off=0)], targets=[3, 4]),
        c(16, [v("mdf", 0, size=8, slen=2, hdr=1, tail=1), v("chain", 1, slen=2, lst=[0, 1]), v("chain", 1, slen=2, lst=[2, 3])], targets=[2, 3]),
    ]


def schedules(chk: Check, K: int, blocks: int, sizes, extras, max_extras: int, label: str, simulate=None) -> List[list]:
    pr = tlc.prepare("Interleave", dict(K=K, Blocks=blocks, Sizes=set(sizes), Extras=tlc.SetOf(extras), MaxExtras=max_extras, EmitCases=True),
                     invariants=["BudgetRespected", "Emit"])
    kw = dict(simulate=f"num={simulate}", depth=60, seed=chk.seed, workers=4) if simulate else {}
    res = chk.run_model(pr, label=label, timeout_s=1800, **kw)
    return [c["sched"] for c in res.cases]


class Target:
    """a real image with its data streams and what each must deliver; lead[i] = offset of stream i's first byte inside its
    first sector/cluster of size unit (so that reads can be aimed at sector boundaries)"""
    def __init__(self, name, image_obj, streams_, expected, ls_paths, lead=None, unit=0):
        self.name, self.image, self.streams, self.expected, self.ls_paths = name, image_obj, streams_, expected, ls_paths
        self.lead, self.unit = lead or [0] * len(streams_), unit

    def size_of(self, i, cls, pos):
        if cls != 4 or not self.unit:
            return SIZES.get(cls, 4096)
        n = self.unit - (self.lead[i] + pos) % self.unit       # up to the next sector / cluster boundary
        return n if n > 0 else self.unit


def akai_target(chk: Check, wrap_mdf: bool, work: str) -> Target:
    # the plain target has TWO partitions (each with its own allocation table and directory): streams of both are interleaved
    nparts = 1 if wrap_mdf else 2
    cases = [c for c in c01.generate(chk, 64 if wrap_mdf else 160, chk.seed + 21 + nparts, label=f"AKAI image for C11 ({nparts} partition(s))", nsect=28,
                                     maxparts=nparts, maxvols=2, maxfiles=3)
             if len(c["parts"]) == nparts
             and all(sum(1 for v in p["vols"] for f in v["files"] if f["ftype"] in (0x73, 0xF3)) >= (3 if nparts == 1 else 2) for p in c["parts"])
             and len(c["parts"][0]["vols"]) >= 2]
    if not cases:
        raise tlc.TlcError(f"no generated AKAI image with {nparts} partition(s) and enough samples")
    cases.sort(key=lambda c: -sum(len(f["chain"]) for p in c["parts"] for v in p["vols"] for f in v["files"]))
    case = cases[0]
    image = aw.build_image(case, chk.seed)
    path = os.path.join(work, "akai_mdf.mdf" if wrap_mdf else "akai.img")
    with open(path, "wb") as fh:
        fh.write(cw.to_mode1_2352(image) if wrap_mdf else image)
    want = {}
    for e in case["expected"]:
        chans = [aw.read_extents(image, case, c["part"], c["extents"]) for c in e["channels"]]
        if len(chans) == 1:
            want[(e["path"][0], e["path"][1], e["path"][2])] = chans[0]
        else:
            want[(e["path"][0], e["path"][1], e["path"][2] + "-L")] = chans[0]
            want[(e["path"][0], e["path"][1], e["path"][2] + "-R")] = chans[1]
    img = repo.open_image(path)
    from smpl_extract.actions import ls_action  # routines are set by ls
    repo.ls(img, "")
    strs, exp, lead = [], [], []
    starts = {(chr(65 + pi), v["name"], f["name"]): 140 + 2 * f["ps"] for pi, p in enumerate(case["parts"]) for v in p["vols"] for f in v["files"]}
    for pi, part in enumerate(img.children):
        for vol in part.children:
            for f in vol.children:
                key = (chr(65 + pi), vol.name, f.name)
                if hasattr(f, "_data_stream") and key in want:
                    strs.append(f._data_stream)
                    exp.append(want[key])
                    lead.append(starts[key])
    if len(strs) != len(want):
        # the image holds len(want) sample streams; the opened image does not show them all (e.g. state left behind by an image
        # or partition opened earlier in this process): that is an observation about the tool, not a generator problem
        chk.evaluated(("c11-open", "akai", wrap_mdf), nontrivial=True)
        chk.violation({"target": "akai-raw-sectors" if wrap_mdf else "akai", "case": case},
                      f"AKAI image with {len(want)} sample streams: only {len(strs)} of them are reachable after opening (others opened before in this process)")
    ls_paths = ["A:", "A:/" + case["parts"][0]["vols"][0]["name"], "A:/" + case["parts"][0]["vols"][1]["name"], "A:/nope"]
    if nparts == 2:
        ls_paths += ["B:", "B:/" + case["parts"][1]["vols"][0]["name"]]
    return Target("akai-raw-sectors" if wrap_mdf else "akai", img, strs, exp, ls_paths, lead, 8192)


def roland_target(chk: Check, work: str) -> Target:
    cases = [c for c in c02.generate(chk, 160, chk.seed + 22, label="Roland image for C11") if len(c["img"]["samples"]) >= 2]

    def score(c):
        # streams of one performance (>= 2), another performance that shares one of its samples (realised lazily during the
        # schedule), and a shared sample with a leading-cluster offset
        best = 0
        for e in c["expected"]:
            ids = {s["sample"] for s in e["samples"]}
            if len(ids) < 2:
                continue
            others = [o for o in c["expected"] if (o["volume"], o["performance"]) != (e["volume"], e["performance"])
                      and ids & {s["sample"] for s in o["samples"]}]
            ctop = any(c["img"]["samples"][i]["ctop"] > 0 and len(c["img"]["samples"][i]["chain"]) > 1 for i in ids)
            best = max(best, len(ids) + 3 * bool(others) + 3 * ctop)
        return best
    cases.sort(key=lambda c: -score(c))
    case = cases[0]
    image = rw.build_image(case, chk.seed)
    path = os.path.join(work, "roland.img")
    with open(path, "wb") as fh:
        fh.write(image)
    img = repo.open_image(path)
    repo.ls(img, "")
    e = max(case["expected"], key=lambda e: (len({s["sample"] for s in e["samples"]}),
                                             any(case["img"]["samples"][s["sample"]]["ctop"] > 0 for s in e["samples"])))
    want = {s["name"]: rw.read_extents(image, case, s["extents"], s["reversed"]) for s in e["samples"]}
    strs, exp, lead = [], [], []
    first = {s["name"]: 2 * s["pts"][0] for s in case["img"]["samples"]}
    rev = {s["name"]: s["mode"] in (5, 6) for s in case["img"]["samples"]}
    vol = [v for v in img.children if v.name == e["volume"]][0]
    perf = [p for p in vol.children if p.name == e["performance"]][0]
    seen = set()
    for f in perf.children:
        if hasattr(f, "to_generalized") and f.name in want and f.name not in seen:
            seen.add(f.name)
            strs.append(f.to_generalized().data_streams[0].stream)
            exp.append(want[f.name])
            lead.append(0 if rev[f.name] else first[f.name])
    others = [f"{o['volume']}/{o['performance']}" for o in case["expected"] if (o["volume"], o["performance"]) != (e["volume"], e["performance"])]
    leaves = [f"{o['volume']}/{o['performance']}/{s['name']}" for o in case["expected"] for s in o["samples"]][:3]
    return Target("roland", img, strs, exp, others + leaves + ["", e["volume"], "nope/x"], lead, 9216)


def cdda_target(chk: Check, work: str) -> Target:
    names = ["One", "Two", "Three"]
    L = lambda c, a=0, b="", m=0, s=0, f=0: {"c": c, "a": a, "b": b, "m": m, "s": s, "f": f}
    lines = [L("FILE", 0, "image.bin")]
    for k, n in enumerate(names):
        lines += [L("TRACK", k + 1, "AUDIO"), L("TITLE", 0, n), L("INDEX", 1, "", 0, 0, 5 * k)]
    binlen = 2352 * 16
    cpath, data = cue.write_pair(os.path.join(work, "cd"), cue.render(lines, 0, 1), binlen, chk.seed)
    img = repo.open_image(cpath)
    repo.ls(img, "")
    strs = [t._data_stream for t in img.children]
    exp = [data[2352 * 5 * k: (2352 * 5 * (k + 1) if k < 2 else binlen)] for k in range(3)]
    return Target("cdda", img, strs, exp, ["", "One", "Two", "zzz"])


def run_schedule(chk: Check, t: Target, sched: list, label: str):
    k = len(t.streams)
    pos = [0] * k
    for s in t.streams:
        s.seek(0, 0)
    chk.evaluated((label, t.name, json.dumps(sched)), nontrivial=len({o[1] for o in sched if o[0] == "read"}) > 1)
    for step, o in enumerate(sched):
        kind, i, arg = o[0], o[1], o[2]
        try:
            if kind == "read":
                n = t.size_of(i - 1, arg, pos[i - 1])
                got = t.streams[i - 1].read(n)
                want = t.expected[i - 1][pos[i - 1]: pos[i - 1] + n]
                if got != want:
                    chk.violation({"target": t.name, "sched": sched, "step": step},
                                  f"{t.name}: step {step} read({n}) on stream {i} at its position {pos[i - 1]} returned {len(got)} bytes that are "
                                  f"not that stream's bytes (expected {len(want)}); schedule {sched[:step + 1]}")
                    return
                pos[i - 1] += len(got)
            elif kind == "seek":
                size = len(t.expected[i - 1])
                target = {0: 0, 1: (size // 4) * 2, 2: size}[arg]
                t.streams[i - 1].seek(target, 0)
                pos[i - 1] = target
            elif kind == "ls":
                repo.ls(t.image, t.ls_paths[arg % len(t.ls_paths)])
        except BaseException as e:  # noqa
            chk.violation({"target": t.name, "sched": sched, "step": step}, f"{t.name}: step {step} {o} raised {type(e).__name__}: {e}")
            return
    chk.agree()


def run(chk: Check):
    thorough = chk.tier == "thorough"
    chk.rule = ("Streams.tla: complete state graph of configurations in which 2-3 views over ONE file cursor are operated in any order "
                "(isolation = every read returns that view's logical slice); the re-seek test removed must be refuted. Interleave.tla: all "
                "interleavings of 2 streams x 3 block reads (x 2 read sizes) and 3 streams x 2 reads, plus seeks and listings of other "
                "directories; every schedule runs on the data streams of real AKAI, raw-sector AKAI, Roland and CDDA images and each read is "
                "compared with that stream's own bytes at its own position (content from the image specifications)")
    mc = streams.mc_module(sharing_configs())
    chk.run_tlc("MCStreams", streams.streams_cfg(depth=0, keep=False, opviews="targets", emit=False, invariants=streams.ALL_INVARIANTS),
                files={"MCStreams.tla": mc}, label="design: shared-handle configurations, complete state graph", timeout_s=3000)
    r = chk.run_tlc("MCStreams", streams.streams_cfg(depth=0, keep=False, opviews="targets", emit=False, invariants=streams.ALL_INVARIANTS, reseek=False),
                    files={"MCStreams.tla": mc}, expect_ok=False, label="sensitivity: re-seek test removed must be refuted")
    chk.extra["mutant_killed"] = {"ReseekTest=FALSE": not r.ok}
    if r.ok:
        raise tlc.TlcError("sensitivity self-test failed: removing the re-seek test is not detected by the specification")
    chk.exhaustive = True
    # behaviours of the cursor machine itself, replayed call by call into the real view classes
    from .c08 import replay_cases
    resb = chk.run_tlc("MCStreams", streams.streams_cfg(depth=10, keep=True, opviews="targets", emit=True, invariants=streams.ALL_INVARIANTS + ["Emit"]),
                       files={"MCStreams.tla": mc}, simulate=f"num={400 if thorough else 80}", depth=12, seed=chk.seed, workers=1,
                       label="behaviours on shared-handle configurations (simulate, depth 10)", timeout_s=3000)
    replay_cases(chk, resb.cases, "shared-sim")
    resb2 = chk.run_tlc("MCStreams", streams.streams_cfg(depth=3, keep=True, opviews="targets", emit=True, invariants=streams.ALL_INVARIANTS + ["Emit"]),
                        files={"MCStreams.tla": streams.mc_module(sharing_configs()[-3:-2] if not thorough else sharing_configs()[-3:])},
                        label="behaviours on contiguous shared files (exhaustive depth 3)", timeout_s=3000)
    cases3 = resb2.cases if thorough else [c for c in resb2.cases if sum(1 for h in c["hist"] if h["op"]["op"] == "read") >= 2]
    replay_cases(chk, cases3, "shared-exh3")
    ex2 = [["seek", 1, 0], ["seek", 2, 1], ["ls", 1, 0], ["ls", 1, 1], ["ls", 2, 2], ["ls", 2, 3]]
    s2 = schedules(chk, 2, 3, {1, 4}, [], 0, "schedules: all interleavings of 2 streams x 3 blocks x 2 sizes (4096 bytes / up to the next sector boundary)")
    s3 = schedules(chk, 3, 2, {1}, [], 0, "schedules: all interleavings of 3 streams x 2 blocks")
    s2x = schedules(chk, 2, 2, {2}, ex2, 2 if thorough else 1, "schedules: 2 streams x 2 blocks with seeks and listings")
    sl = schedules(chk, 3, 6, {1, 2, 3, 4}, ex2 + [["seek", 3, 2], ["ls", 3, 2]], 4, "schedules: long random", simulate=40 if thorough else 6)
    work = tlc.scratch_dir("c11_")
    try:
        targets = [akai_target(chk, False, work), akai_target(chk, True, work), roland_target(chk, work), cdda_target(chk, work)]
        for t in targets:
            if len(t.streams) < 2:
                if chk.violations:          # already reported by the target builder
                    continue
                raise tlc.TlcError(f"target {t.name} has fewer than 2 streams")
            k = len(t.streams)
            pool = (s2 if not thorough else s2) + s2x + (s3 if k >= 3 else []) + (sl if k >= 3 else [])
            if not thorough:
                pool = pool[:: max(1, len(pool) // 400)]
            for sc in pool:
                if max(o[1] for o in sc if o[0] != "ls") <= k:
                    run_schedule(chk, t, sc, "sched")
        chk.extra["targets"] = {t.name: len(t.streams) for t in targets}
    finally:
        shutil.rmtree(work, ignore_errors=True)
    chk.sample({"schedule": s2x[len(s2x) // 2], "sizes": SIZES})
    chk.assumptions += ["each stream's expected bytes come from the image specifications (extents) and the independent writers",
                        "streams are rewound with seek(0) between schedules on one image object"]


def replay(chk: Check, path: str):
    rec = json.load(open(path))["case"]
    work = tlc.scratch_dir("c11r_")
    try:
        mk = {"akai": lambda: akai_target(chk, False, work), "akai-raw-sectors": lambda: akai_target(chk, True, work),
              "roland": lambda: roland_target(chk, work), "cdda": lambda: cdda_target(chk, work)}
        run_schedule(chk, mk[rec["target"]](), rec["sched"], "replay")
    finally:
        shutil.rmtree(work, ignore_errors=True)
