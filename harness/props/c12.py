"""C12 - PCM transcoding maps every source channel to the same-numbered output channel.  Spec: spec/Transcoder.tla."""
from __future__ import annotations

import io
import json
from typing import Dict, List

from .. import tlc
from ..core import Check
from .. import repo  # noqa: F401

INVS = ["ChannelOrderAndValues", "LengthBounds", "ExactWhenEqual", "Emit"]


def model(ms, mc, mf, blocks, sys_orders=("L", "B"), d7=True, emit=True):
    c = dict(MaxStreams=ms, MaxCh=mc, MaxFrames=mf, BlockSizes=set(blocks), SysOrders=set(sys_orders), SwapFlagsPerChannel=d7,
             EmitCases=emit)
    return tlc.cfg_text(spec="Spec", constants=c, invariants=INVS, properties=["Terminates"])


def value_of(s: int, c: int, f: int, width: int) -> int:
    """a distinct, byte-asymmetric integer per (stream, channel, frame)"""
    if width == 1:
        return (s * 64 + c * 16 + f) & 0xFF
    if width == 2:
        return ((s * 4 + c) << 8 | (0x80 + f)) & 0xFFFF
    return ((s << 24) | (c << 16) | (0x5A << 8) | f) & 0xFFFFFFFF


def run_case(chk: Check, case: dict, width: int, real_block: bool = False):
    import smpl_extract.transcoder as tr
    from smpl_extract.data_streams import DataStream, Endianess, StreamEncoding
    cfg = case["cfg"]
    streams = []
    total = 0
    maxfs = max(s["nch"] * width for s in cfg["streams"])
    for i, s in enumerate(cfg["streams"], start=1):
        raw = bytearray()
        for f in range(1, s["frames"] + 1):
            for c in range(1, s["nch"] + 1):
                raw += value_of(i, c, f, width).to_bytes(width, "little" if s["order"] == "L" else "big")
        if s["partial"]:
            raw += b"\x7f" * ((s["nch"] * width) - 1)      # less than one frame (nothing for 1-byte frames)
        enc = StreamEncoding(endianess=Endianess.LITTLE if s["order"] == "L" else Endianess.BIG, sample_width=width,
                             num_interleaved_channels=s["nch"])
        streams.append(DataStream(io.BytesIO(bytes(raw)), enc))
        total += s["nch"]
    dest = StreamEncoding(endianess=Endianess.LITTLE, sample_width=width, num_interleaved_channels=total)
    old_def = tr.get_num_frames_possible.__defaults__
    old_sys = tr.system_byte_order
    key = ("c12", json.dumps(cfg, sort_keys=True), width)
    chk.evaluated(key, nontrivial=len(cfg["streams"]) > 1 or cfg["streams"][0]["nch"] > 1)
    payload = {"cfg": cfg, "width": width}
    try:
        tr.get_num_frames_possible.__defaults__ = (cfg["B"] * maxfs,)
        tr.system_byte_order = Endianess.LITTLE if cfg["sys"] == "L" else Endianess.BIG
        try:
            data = b"".join(tr.make_transcoder(streams, dest))
        except Exception as e:
            chk.violation(payload, f"transcoding raised {type(e).__name__}: {e} for {cfg}")
            return
    finally:
        tr.get_num_frames_possible.__defaults__ = old_def
        tr.system_byte_order = old_sys
    fsz = total * width
    problems = []
    if len(data) % fsz:
        problems.append(f"output of {len(data)} bytes is not a whole number of {total}-channel frames")
    n = len(data) // fsz
    shortest = case["shortest"]
    longest = max(s["frames"] for s in cfg["streams"])
    if not (shortest <= n <= longest):
        problems.append(f"{n} output frames, sources have {shortest}..{longest}")
    if shortest == longest and n != shortest:
        problems.append(f"all sources have {shortest} frames, output has {n}")
    # channel k of frame j below the shortest source
    chanmap = [(i, c) for i, s in enumerate(cfg["streams"], start=1) for c in range(1, s["nch"] + 1)]
    for j in range(1, min(n, shortest) + 1):
        for k, (i, c) in enumerate(chanmap):
            o = (j - 1) * fsz + k * width
            got = int.from_bytes(data[o:o + width], "little")
            if got != value_of(i, c, j, width):
                problems.append(f"frame {j} channel {k}: got {got:#x}, want source stream {i} channel {c} = {value_of(i, c, j, width):#x}")
                break
        if problems:
            break
    if problems:
        chk.violation(payload, f"{cfg} width {width}: " + "; ".join(problems)[:800])
        return
    if n != case["nframes"]:
        chk.drift("frame_count_beyond_shortest_differs_from_spec")
    else:
        chk.agree()


def real_block_cases(chk: Check):
    """lengths k*B + r at the real 4096-byte block size (B = 4096 // frame size)"""
    import smpl_extract.transcoder as tr
    from smpl_extract.data_streams import DataStream, Endianess, StreamEncoding
    for width in (1, 2, 4):
        for nchs in ((1,), (2,), (3,), (5,), (1, 1), (2, 1), (1, 2), (3, 1), (1, 1, 1)):
            maxfs = max(n * width for n in nchs)
            B = max(1, 4096 // maxfs)
            for lens in ((B, B), (B - 1, B + 1), (2 * B, 2 * B), (2 * B + 1, 2 * B + 1), (0, B), (3 * B - 1, 3 * B - 1), (5 * B + 3, 5 * B + 3)):
                ls = [lens[i % 2] for i in range(len(nchs))]
                for orders in (("L",) * len(nchs), ("B",) + ("L",) * (len(nchs) - 1)):
                    cfg = {"streams": [{"nch": n, "order": o, "frames": l, "partial": l % 2 == 1} for n, o, l in zip(nchs, orders, ls)],
                           "B": B, "sys": "L"}
                    case = {"cfg": cfg, "shortest": min(ls), "nframes": None}
                    # nframes per the block rule of the specification: sum over blocks before the shortest runs dry
                    m, out = min(ls), 0
                    j = 0
                    while j * B < m:
                        out += max(min(B, max(0, l - j * B)) for l in ls)
                        j += 1
                    case["nframes"] = out
                    run_case(chk, case, width)


def run(chk: Check):
    thorough = chk.tier == "thorough"
    chk.rule = ("TLC explores every configuration of 1-3 streams x 1-3 interleaved channels (<= 3 channels in all) x byte order per stream x "
                "lengths 0..4 frames with optional partial trailing frame x block size 1-2 frames x host byte order, stepping the "
                "transcoder block by block with symbolic samples; each configuration is run through the real make_transcoder at widths "
                "1, 2 and 4 (block size and host order patched), plus lengths k*B+r at the real 4096-byte block; non-trivial = more than one channel")
    res = chk.run_tlc("Transcoder", model(3, 3, 4 if thorough else 3, {1, 2}), label="design: all configurations", timeout_s=3000,
                      heap="8g")
    chk.exhaustive = True
    cases = res.cases
    stride = 1 if thorough else max(1, len(cases) // 6000)
    for i, c in enumerate(cases[chk.seed % stride::stride]):
        for w in ((1, 2, 4) if thorough or i % 3 == 0 else ((1, 2, 4)[i % 3],)):
            run_case(chk, c, w)
    real_block_cases(chk)
    if thorough:
        r = chk.run_tlc("Transcoder", model(2, 3, 2, {1}, d7=False, emit=False), expect_ok=False, label="sensitivity SwapFlagsPerChannel=FALSE")
        chk.extra["spec_mutants_killed"] = {"SwapFlagsPerChannel": not r.ok}
        if r.ok:
            raise tlc.TlcError("sensitivity self-test failed")
    c = cases[len(cases) // 2]
    chk.sample({"cfg": c["cfg"], "predicted_frames": c["nframes"], "out": c["out"][:2]})
    chk.assumptions += ["block size set through the default argument of get_num_frames_possible; host order through transcoder.system_byte_order",
                        "values padded beyond the shortest source (linear ramp) are outside the property; their count is compared as drift only"]


def replay(chk: Check, path: str):
    rec = json.load(open(path))["case"]
    cfg = rec["cfg"]
    ls = [s["frames"] for s in cfg["streams"]]
    B = cfg["B"]
    m, out, j = min(ls), 0, 0
    while j * B < m:
        out += max(min(B, max(0, l - j * B)) for l in ls)
        j += 1
    run_case(chk, {"cfg": cfg, "shortest": m, "nframes": out}, rec["width"])
    chk.run_tlc("Transcoder", model(1, 2, 2, {1}, emit=False), label="design (replay context)")
