"""C13 - `ls` and `export` terminate with bounded resources on any input file.
Specifications: spec/AllocWalk.tla + spec/Scans.tla (every loop over untrusted structure terminates, with a linear step bound, as
liveness / invariants over all small inputs) and spec/Faults.tla (fault sequences).  Binding: every fault sequence is applied to a real
generated image and the real tool runs on it in a forked child under RLIMIT_CPU / RLIMIT_AS with limits affine in the image size."""
from __future__ import annotations

import json
import random
from typing import Any, Dict, List

from .. import tlc, faults, naming, cue
from ..core import Check
from .. import repo
from ..writers import akai as aw, roland as rw, containers as cw
from . import c01, c02
from .c07 import akai_alphabet, roland_alphabet


def fault_model(nvals: List[int], max_faults: int):
    return tlc.prepare("Faults", dict(NVals=nvals, MaxFaults=max_faults, EmitCases=True), invariants=["DistinctSites", "Emit"])


def judge(chk: Check, label: str, payload: dict, r: repo.ChildResult, size: int):
    cpu, mem = faults.limits_for(size)
    st = chk.extra.setdefault("measured", {"max_cpu_s": 0.0, "max_rss_mb": 0, "runs": 0})
    st["runs"] += 1
    st["max_cpu_s"] = max(st["max_cpu_s"], round(r.cpu_s, 2))
    st["max_rss_mb"] = max(st["max_rss_mb"], r.maxrss_kb >> 10)
    if r.status in ("ok", "exc"):
        chk.agree()
        return
    what = {"timeout": "did not finish within the wall-clock watchdog", "cpu": f"exceeded the CPU limit of {cpu:.1f} s",
            "mem": f"exceeded the memory limit of {mem} MB", "killed": f"was killed ({r.err})"}[r.status]
    chk.violation(payload, f"{label}: the tool {what} on an input of {size} bytes (cpu {r.cpu_s:.1f} s, rss {r.maxrss_kb >> 10} MB)")


def akai_base(chk: Check):
    cases = c01.generate(chk, 96, chk.seed + 31, label="AKAI image for fault injection", nsect=14, maxparts=1, maxvols=2, maxfiles=3)
    cases = [c for c in cases if len(c["parts"][0]["vols"]) == 2] or cases
    withprog = [c for c in cases if any(f["ftype"] in (0x70, 0xF0) for v in c["parts"][0]["vols"] for f in v["files"])
                and any(f["ftype"] in (0x73, 0xF3) for v in c["parts"][0]["vols"] for f in v["files"])]
    case = (withprog or cases)[0]
    paths = ["", "A:"] + [f"A:/{v['name']}" for v in case["parts"][0]["vols"]] + \
            [f"A:/{v['name']}/{f['name']}" for v in case["parts"][0]["vols"] for f in v["files"]][:3]
    return case, aw.build_image(case, chk.seed), paths


def roland_base(chk: Check):
    cases = [c for c in c02.generate(chk, 48, chk.seed + 32, label="Roland image for fault injection") if c["img"]["vols"] and len(c["img"]["samples"]) >= 2]
    case = cases[0]
    e = case["expected"][0]
    paths = ["", e["volume"], f"{e['volume']}/{e['performance']}"] + [f"{e['volume']}/{e['performance']}/{s['name']}" for s in e["samples"]][:2]
    return case, rw.build_image(case, chk.seed), paths


def build_jobs(chk: Check, thorough: bool, rng) -> List[Dict[str, Any]]:
    """every damaged / hostile input of this tier, deterministic in (seed, tier): [{label, faults, names, data, paths, suffix, extra}]"""
    jobs: List[Dict[str, Any]] = []
    for label, (case, image, paths), sites_fn in (("akai", akai_base(chk), faults.akai_sites), ("roland", roland_base(chk), faults.roland_sites)):
        sites = sites_fn(case)
        nvals = [len(s.values) for s in sites]
        singles = chk.run_model(fault_model(nvals, 1), label=f"fault sequences: all single faults on the {label} image ({len(sites)} sites)").cases
        multi = chk.run_model(fault_model(nvals, 3), simulate=f"num={60 if thorough else 12}", depth=5, seed=chk.seed, workers=4,
                              label=f"fault sequences: simulated pairs/triples ({label})").cases
        # the simulation emits a case for every generated successor (tens of thousands): distinct fault sets, seeded sample
        seen, uniq_multi = set(), []
        for m in multi:
            k = json.dumps(m["faults"])
            if len(m["faults"]) > 1 and k not in seen:
                seen.add(k)
                uniq_multi.append(m)
        uniq_multi.sort(key=lambda m: json.dumps(m["faults"]))
        random.Random(chk.seed + 5).shuffle(uniq_multi)
        fs = [c["faults"] for c in singles]
        if not thorough:
            # the words that can close a loop or move a boundary (allocation-table words, size / start / count fields, chain
            # addresses) are always run with every value; the remaining sites are sampled
            def loop_maker(f):
                n = sites[f[0][0] - 1].name
                return (n.startswith("fat") or ".sat" in n or n.endswith((".size", ".start", ".endmark")) or "fat_entry" in n or "keygroup" in n
                        or "cluster_top" in n or n.startswith("id.num"))
            crit = [f for f in fs if loop_maker(f)]
            rest = [f for f in fs if not loop_maker(f)]
            srng = random.Random(chk.seed + 6)
            if label == "roland" and len(crit) > 360:          # 3 MB images: of the loop-makers, first every word of a USED cluster set to a
                usedc = {c for c, _ in case["fat"]}            # link into a used cluster (loops, rho shapes, cross links), then a seeded sample
                def linker(f):
                    st = sites[f[0][0] - 1]
                    return st.name.startswith("fat") and st.name[3:].isdigit() and int(st.name[3:]) in usedc and st.values[f[0][1] - 1] in usedc
                first = [f for f in crit if linker(f)]
                others = [f for f in crit if not linker(f)]
                crit = first[:360] + sorted(srng.sample(others, max(0, min(len(others), 360 - len(first)))))
            fs = crit + sorted(srng.sample(rest, min(len(rest), 260 if label == "akai" else 60)))
            multi = uniq_multi[:120 if label == "akai" else 40]
        else:
            multi = uniq_multi[:3000 if label == "akai" else 600]
        chk.extra.setdefault("fault_sets", {})[label] = {"single": len(fs), "multi_distinct_generated": len(uniq_multi), "multi_run": len(multi)}
        for f in fs + [m["faults"] for m in multi]:
            jobs.append({"label": label, "faults": f, "names": [(sites[s - 1].name, sites[s - 1].values[v - 1]) for s, v in f],
                         "data": (lambda image=image, sites=sites, f=f: faults.apply(image, sites, f)), "size": len(image), "paths": paths, "suffix": ".img", "extra": None})
        chk.extra.setdefault("sites", {})[label] = len(sites)
        # containers around a damaged image
        for f in fs[:: max(1, len(fs) // (40 if thorough else 6))]:
            jobs.append({"label": label + "-mdf", "faults": f, "names": [], "size": len(image) * 2352 // 2048,
                         "data": (lambda image=image, sites=sites, f=f: cw.to_mode1_2352(faults.apply(image, sites, f))),
                         "paths": paths[:2], "suffix": ".mdf", "extra": None})
    # truncations of the two base images and of an image holding one mono sample spread over four sectors (header and first
    # blocks readable, later sectors gone): every sector / cluster boundary of the populated part and a point inside each
    long_case = naming.akai_files_case(["LONG MONO", "TAIL"], [14000, 50])
    long_case["parts"][0]["vols"][0]["files"][0]["chain"] = [5, 8, 7, 9]
    long_case["parts"][0]["vols"][0]["files"][1]["chain"] = [6]
    long_case["parts"][0]["sat"] = [[4, 49152], [5, 8], [8, 7], [7, 9], [9, 49152], [6, 49152]]
    long_case["nsect"] = 11
    long_img = aw.build_image(long_case, chk.seed)
    for label, (case, image, paths), unit, lo in (("akai", akai_base(chk), 8192, 0), ("roland", roland_base(chk), 9216, rw.A["data_fat"]),
                                                  ("akai-long", (long_case, long_img, ["", "A:", "A:/VOL", "A:/VOL/LONG MONO"]), 8192, 0)):
        top = len(image)
        cuts = sorted({c for k in range(0, (top - lo) // unit + 1) for c in (lo + k * unit, lo + k * unit + unit // 2 + 1) if 0 < c < top})
        if label == "roland":
            cuts = [c for c in cuts if c >= rw.A["data"] - unit] + [rw.A["fat"] + 100, rw.A["sample_dir"] + 40, rw.A["data"] - 1]
        if not thorough:
            cuts = cuts[:: max(1, len(cuts) // 24)]
        for c in cuts:
            jobs.append({"label": label + "-truncated", "faults": [[c, 0]], "names": [("cut", c)], "size": c, "paths": paths, "suffix": ".img", "extra": None,
                         "data": (lambda image=image, c=c: image[:c])})
    # valid images whose names collide in every way the naming code has a loop for: duplicates, pairs sharing a stem through
    # different separators, stored names that look like generated ones ("A (2)")
    for k, names in enumerate((["A-L", "A-R", "A L", "A R", "A -L", "A -R"], ["A", "A", "A", "A-L", "A-R", "A L", "A R"], ["A"] * 9)):
        jobs.append({"label": "akai-names", "faults": [[k, 0]], "names": [("names", ",".join(names))], "data": aw.build_image(naming.akai_files_case(names), chk.seed),
                     "paths": ["", "A:", "A:/VOL", "A:/VOL/A"], "suffix": ".img", "extra": None})
    for k, names in enumerate((["A", "A (2)", "A-L", "A-R"], ["A (2)", "A (3)", "A", "A", "A-L", "A-R"], ["A (2)", "A (2)", "A", "A", "A (3)"], ["A L"] * 7)):
        jobs.append({"label": "roland-names", "faults": [[k, 0]], "names": [("names", ",".join(names))], "data": (lambda names=names: rw.build_image(naming.roland_files_case(names), chk.seed)),
                     "size": 3_000_000, "paths": ["", "Vol", "Vol/Perf", "Vol/Perf/A"], "suffix": ".img", "extra": None})
    for k, names in enumerate((["A", "A", "A (2)", "A (2)", "A (3)"], ["A L", "A R", "A-L", "A-R", "A", "A (2)"], ["A"] * 12)):
        ls_, bl_ = naming.cue_lines(names)
        jobs.append({"label": "cdda-names", "faults": [[k, 0]], "names": [("titles", ",".join(names))], "data": "".join(cue.render(ls_, 0, 1)).encode("ascii"),
                     "paths": ["", "A", "A (2)"], "suffix": ".cue", "extra": {"image.bin": cue.bin_bytes(bl_, 1)}})
    # containers with untrusted length fields: an MDX header whose eof field is below / at / beyond the file, a MODE1/2352 file whose
    # first sector is valid and whose later sectors are cut or garbage
    (case, image, paths) = akai_base(chk)
    mdx = cw.to_mdx(image)
    for eof in (0, 1, 63, 64, 65, 64 + 8192 * 3, len(mdx) - 1, len(mdx) + 1, len(mdx) * 2, 2 ** 31, 2 ** 63 - 1, 2 ** 63, 2 ** 64 - 1):
        jobs.append({"label": "mdx-eof", "faults": [[eof % (2 ** 31), eof >> 31]], "names": [("eof", eof)], "data": mdx[:40] + eof.to_bytes(8, "little") + mdx[48:],
                     "paths": paths, "suffix": ".mdx", "extra": None})
    mdf = cw.to_mode1_2352(image)
    for k, cut in enumerate((16, 2351, 2352, 2353, 2352 * 3 + 16, 2352 * 20 + 1000, len(mdf) - 1)):
        jobs.append({"label": "mdf-cut", "faults": [[cut, 0]], "names": [("cut", cut)], "data": mdf[:cut], "paths": paths[:3], "suffix": ".mdf", "extra": None})
        jobs.append({"label": "mdf-garbage", "faults": [[cut, 1]], "names": [("garbage from", cut)], "data": mdf[:cut] + rng.randbytes(min(50000, len(mdf) - cut)),
                     "paths": paths[:3], "suffix": ".mdf", "extra": None})
    # cue sheets: every line replaced by each mutation
    lines, binlen = naming.cue_lines(["One", "Two"])
    text = cue.render(lines, 0, 1)
    muts = ["", "garbage\n", "FILE image.bin BINARY\n", '  TRACK AUDIO\n', "    INDEX 01 99:99:99\n", "    INDEX 01 00:00\n", '    TITLE "' + "x" * 5000 + '"\n',
            '  TRACK 01 MODE1/2352\n', "    INDEX 01 00:00:00\n" * 50, 'FILE "missing.bin" BINARY\n', 'FILE "image.cue" BINARY\n']
    for i in range(len(text)):
        for m in muts:
            t = list(text)
            t[i] = m
            jobs.append({"label": "cue", "faults": [[i, muts.index(m)]], "names": [(f"line{i}", m[:30])], "data": "".join(t).encode("ascii"),
                         "paths": ["", "One", "Two"], "suffix": ".cue", "extra": {"image.bin": cue.bin_bytes(binlen, 1)}})
    # cue sheets with one very long line: a long run of one character class inside a title (alone, and twice so that the
    # duplicate-name and pairing code sees it), a file name, a track line, a remark; every regular expression and every
    # name routine must stay linear in the line length
    N = 60000
    runs = {"blanks": " " * N, "hyphens": "-" * N, "blank-hyphen": " -" * (N // 2), "dots": "." * N, "dot-blank": " ." * (N // 2), "quotes": "'" * N,
            "colons": ":" * N, "stars": "*" * N, "L": " L" * (N // 2), "counted": " (2)" * (N // 4), "digits": "1" * N, "words": "ab " * (N // 3)}
    for rn, run_ in sorted(runs.items()):
        t1 = f'    TITLE "A{run_}B"\n'
        shapes = {"title": ['FILE "image.bin" BINARY\n', "  TRACK 01 AUDIO\n", t1, "    INDEX 01 00:00:00\n"],
                  "title-twice": ['FILE "image.bin" BINARY\n', "  TRACK 01 AUDIO\n", t1, "    INDEX 01 00:00:00\n", "  TRACK 02 AUDIO\n", t1, "    INDEX 01 00:00:02\n"],
                  "title-pair": ['FILE "image.bin" BINARY\n', "  TRACK 01 AUDIO\n", f'    TITLE "A{run_}B L"\n', "    INDEX 01 00:00:00\n",
                                 "  TRACK 02 AUDIO\n", f'    TITLE "A{run_}B R"\n', "    INDEX 01 00:00:02\n"],
                  # the same side-lettered title on two tracks (a counted name is derived from a name that ends in L), and L, L, R
                  "title-L-twice": ['FILE "image.bin" BINARY\n', "  TRACK 01 AUDIO\n", f'    TITLE "A{run_}B L"\n', "    INDEX 01 00:00:00\n",
                                    "  TRACK 02 AUDIO\n", f'    TITLE "A{run_}B L"\n', "    INDEX 01 00:00:02\n"],
                  "title-LLR": ['FILE "image.bin" BINARY\n', "  TRACK 01 AUDIO\n", f'    TITLE "A{run_}BL"\n', "    INDEX 01 00:00:00\n",
                                "  TRACK 02 AUDIO\n", f'    TITLE "A{run_}BL"\n', "    INDEX 01 00:00:02\n",
                                "  TRACK 03 AUDIO\n", f'    TITLE "A{run_}BR"\n', "    INDEX 01 00:00:04\n"],
                  "file": [f'FILE "{run_}" BINARY\n', "  TRACK 01 AUDIO\n", "    INDEX 01 00:00:00\n"],
                  # a quote that is never closed (a cut-off line): 60 kB and 40 characters
                  "title-open": ['FILE "image.bin" BINARY\n', "  TRACK 01 AUDIO\n", f'    TITLE "A{run_}B\n', "    INDEX 01 00:00:00\n"],
                  "title-open-short": ['FILE "image.bin" BINARY\n', "  TRACK 01 AUDIO\n", f'    TITLE "A{run_[:40]}B\n', "    INDEX 01 00:00:00\n"],
                  "file-open": [f'FILE "{run_[:40]}\n', "  TRACK 01 AUDIO\n", "    INDEX 01 00:00:00\n", 'FILE "image.bin" BINARY\n', "  TRACK 01 AUDIO\n", "    INDEX 01 00:00:00\n"],
                  "track": ['FILE "image.bin" BINARY\n', f"  TRACK 01 {run_}\n", "    INDEX 01 00:00:00\n"],
                  "index": ['FILE "image.bin" BINARY\n', "  TRACK 01 AUDIO\n", f"    INDEX 01 {run_}:00:00\n"],
                  "remark": ['FILE "image.bin" BINARY\n', f"REM {run_}\n", "  TRACK 01 AUDIO\n", "    INDEX 01 00:00:00\n"]}
        for sn, lines_ in sorted(shapes.items()):
            if not thorough and sn in ("track", "index", "remark", "title-open", "file-open") and rn not in ("blanks", "digits", "words"):
                continue
            jobs.append({"label": "cue-long-line", "faults": [[sn, rn]], "names": [(sn, rn)], "data": "".join(lines_).encode("ascii"),
                         "paths": ["", "A"], "suffix": ".cue", "extra": {"image.bin": bytes(2352 * 8)}})
    # random text: lines drawn from cue keywords, quotes, numbers and blanks (random byte strings never pass the text probe)
    words = ["FILE", "TRACK", "INDEX", "TITLE", "BINARY", "AUDIO", "MODE1/2352", '"', '"image.bin"', "01", "02", "00:00:00", "00:02:00", "REM", " ", "  ", "\t",
             "A", "B L", "B R", "-", ".", "(2)", "99", "file", "track", "index"]
    for i in range(400 if thorough else 80):
        text = "".join(" ".join(rng.choice(words) for _ in range(rng.randint(0, 6))) + rng.choice(["\n", "\r\n", "\n\n"]) for _ in range(rng.randint(1, 12)))
        jobs.append({"label": "random-text", "faults": [[i, len(text)]], "names": [], "data": text.encode("ascii"), "paths": ["", "A", "Untitled Track 1"],
                     "suffix": ".cue", "extra": {"image.bin": bytes(2352 * 8)}})
    # random byte strings and random corruptions
    n_rand = 300 if thorough else 60
    for i in range(n_rand):
        size = rng.choice([0, 1, 100, 512, 4096, 30000, 100000])
        data = rng.randbytes(size)
        if i % 3 == 0 and size >= 300:                 # start like a known format
            pre = [aw.MAGIC, cw.SYNC, b"MEDIA DESCRIPTOR", rw.id_area({"vols": [], "perfs": [], "patches": [], "partials": [], "samples": []})][i % 4]
            data = (b"\x05\x00\x00\x00" + pre if pre is aw.MAGIC else pre) + data[len(pre):]
        jobs.append({"label": "random", "faults": [[i, size]], "names": [], "data": data, "paths": ["", "A:", "x/y"], "suffix": ".img", "extra": None})
    (case, image, paths) = akai_base(chk)
    for i in range(200 if thorough else 40):
        b = bytearray(image)
        for _ in range(rng.randint(1, 6)):
            o = rng.randrange(0, min(len(b), 3 * 8192 + 4 * 8192))
            n = rng.randint(1, 8)
            b[o:o + n] = rng.randbytes(n)
        jobs.append({"label": "akai-random-bytes", "faults": [[i, 0]], "names": [], "data": bytes(b), "paths": paths, "suffix": ".img", "extra": None})
    return jobs


def run(chk: Check):
    thorough = chk.tier == "thorough"
    rng = random.Random(chk.seed)
    chk.rule = ("design: termination (liveness) and a linear step bound for every loop over untrusted structure - the three allocation-table "
                "walks, the partition scan, the file-table scan, the keygroup chain, cue line consumption, the trimming of an export name - over all small inputs. Fault "
                "enumeration: TLC enumerates every single fault (site x value: every used SAT/FAT word and neighbours set to each special "
                "value, each in-range link, itself, extremes; directory pointers, counts, sizes, type bytes, header counts) and simulated "
                "pairs/triples on generated AKAI and Roland images, plus mutated cue sheets, cue sheets with one 60 kB line of each character class in each position, random cue-like text, random byte strings and random multi-byte "
                "corruptions, and truncations of the base images at sector / cluster boundaries and inside; each runs ls at every level and export in a forked "
                "child under rlimits; non-trivial = distinct fault set")
    for kind in ("partitions", "table", "keygroups", "cue"):
        chk.run_tlc("Scans", tlc.cfg_text(spec="Spec", constants=dict(TrimBacktracks=False, TableScanRealigns=True, Kind=kind, MaxSize=5 if thorough else 4, S=2, HeadLen=5),
                                          invariants=["StepBound", "Aligned"], properties=["Terminates"]), label=f"design: {kind} scan terminates, linear steps")
    # name trimming (D19): the repaired trim is linear and gives the same name as the regular expression it replaced;
    # the regular expression run by a backtracking matcher must be refuted on the step bound
    trim = dict(TableScanRealigns=True, Kind="trim", MaxSize=6 if thorough else 5, S=2, HeadLen=5)
    chk.run_tlc("Scans", tlc.cfg_text(spec="Spec", constants=dict(trim, TrimBacktracks=False), invariants=["StepBound", "TrimResult"], properties=["Terminates"]),
                label="design: trimming the ending of an export name is linear")
    chk.run_tlc("Scans", tlc.cfg_text(spec="Spec", constants=dict(trim, TrimBacktracks=True), invariants=["TrimResult"], properties=["Terminates"]),
                label="design: the backtracking matcher computes the same ending")
    r = chk.run_tlc("Scans", tlc.cfg_text(spec="Spec", constants=dict(trim, TrimBacktracks=True), invariants=["StepBound"]), expect_ok=False,
                    label="sensitivity: the backtracking matcher must be refuted on the step bound")
    chk.extra["spec_mutants_killed"] = {"TrimBacktracks": not r.ok}
    if r.ok:
        raise tlc.TlcError("sensitivity self-test failed: Scans.tla accepts the backtracking trim")
    for kind, n, alpha, lo, hi in [("path", 3, {0}, 0, 0), ("akai", 4, akai_alphabet(4), 0, 4), ("roland", 13, roland_alphabet(13, 5), 2, 5)]:
        c = dict(N=n, Kind=kind, Alphabet=alpha, Lo=lo, Hi=hi, PathGuardIncrements=True, RolandWalkBounded=True)
        chk.run_tlc("AllocWalk", tlc.cfg_text(spec="Spec", constants=c, properties=["Terminates"]), label=f"design: {kind} table walk terminates")
    jobs = build_jobs(chk, thorough, rng)
    import gc
    gc.collect()

    def do(job):
        data = job["data"]() if callable(job["data"]) else job["data"]
        return faults.probe(data, job["paths"], job["suffix"], job["extra"])
    results = faults.parallel(do, jobs, procs=14)
    for job, r in zip(jobs, results):
        chk.evaluated((job["label"], json.dumps(job["faults"])), nontrivial=True)
        judge(chk, job["label"], {"label": job["label"], "faults": job["faults"], "names": job["names"], "tier": chk.tier}, r,
              job.get("size") or len(job["data"]) + sum(len(b) for b in (job["extra"] or {}).values()))
    chk.extra["jobs"] = {k: sum(1 for j in jobs if j["label"] == k) for k in sorted({j["label"] for j in jobs})}
    chk.sample({"label": jobs[3]["label"], "fault": jobs[3]["names"]})
    chk.level = "model_checking"
    chk.assumptions += ["limits: CPU 10 s + 20 us/byte, address space 1.5 GB + 64 x size; pass = the child exits (any status) inside them",
                        "linearity in the image size is supported by bounded model instances (step bounds) and by measurement, not proved",
                        "fault sites are computed from the generated image's layout by the harness; TLC enumerates which sites/values are combined"]


def replay(chk: Check, path: str):
    rec = json.load(open(path))["case"]
    tier = rec.get("tier", chk.tier)
    jobs = build_jobs(chk, tier == "thorough", random.Random(chk.seed))
    key = (rec["label"], json.dumps(rec["faults"]))
    job = next((j for j in jobs if (j["label"], json.dumps(j["faults"])) == key), None)
    if job is None:
        raise tlc.TlcError(f"the recorded input {key} is not among the inputs of tier {tier} with seed {chk.seed}")
    data = job["data"]() if callable(job["data"]) else job["data"]
    r = faults.probe(data, job["paths"], job["suffix"], job["extra"])
    chk.evaluated(("replay", key[0], key[1]))
    judge(chk, job["label"], dict(rec), r, job.get("size") or len(data) + sum(len(b) for b in (job["extra"] or {}).values()))
