"""C14 - a damaged directory entry affects only that entry.
Specifications: spec/Scans.tla (table scan stays aligned after a failed entry parse), spec/Faults.tla (which byte of the entry gets
which value; multi-byte damage), spec/Names.tla (decides whether a damaged NAME legitimately changes siblings through de-duplication /
pairing: known finding D16)."""
from __future__ import annotations

import json
import os
import random
import shutil
from typing import Any, Dict, List, Tuple

from .. import tlc, faults, naming
from ..core import Check
from .. import repo
from ..readers import riff
from ..writers import akai as aw, roland as rw
from ..writers.fields import akai_bytes, ROLAND_AREAS as A
from .c07 import with_watchdog, Hang
from .c10 import table_names

AKAI_NAMES = ["KICK", "SNARE 1", "HAT#2", "TOM-R"]
ROLAND_NAMES = ["Piano A", "Bass_1", "Str C3", "Brass R"]


def akai_base(seed: int):
    case = naming.akai_files_case(AKAI_NAMES, [300, 301, 302, 303])
    image = aw.build_image(case, seed)
    # byte offsets of entry i: 24 bytes in the directory sector (sector 4)
    ent = [4 * 8192 + 24 * i for i in range(len(AKAI_NAMES))]
    return case, image, ent


def roland_base(seed: int):
    case = naming.roland_files_case(ROLAND_NAMES, [300, 301, 302, 303])
    # one loop mode per sample (alternate, reverse one-shot, forward one-shot, reverse loop) and distinct loop points: the
    # mode-specific window arithmetic meets the damaged points
    for s, mode in zip(case["img"]["samples"], (4, 5, 3, 6)):
        end = s["pts"][4]
        s["mode"], s["pts"] = mode, [10, 20, end - 30, 40, end]
    image = rw.build_image(case, seed)
    recs = [(A["sample_dir"] + 32 * i, A["sample_param"] + 0x30 * i) for i in range(len(ROLAND_NAMES))]
    return case, image, recs


def observe(image: bytes, kind: str, work: str) -> Dict[str, Any]:
    """names listed in the directory and exported audio per file (by relative path)"""
    p = os.path.join(work, "img.img")
    with open(p, "wb") as fh:
        fh.write(image)
    dest = os.path.join(work, "out")
    shutil.rmtree(dest, ignore_errors=True)
    obs = {"names": None, "audio": {}, "err": ""}

    def go():
        img = repo.open_image(p)
        obs["names"] = table_names(repo.ls(img, "A:/VOL" if kind == "akai" else "Vol/Perf"))
        repo.export(repo.open_image(p), dest)
    try:
        with_watchdog(go, 20.0)
    except Hang:
        obs["err"] = "hang"
    except BaseException as e:  # noqa
        obs["err"] = f"{type(e).__name__}: {e}"
    if os.path.isdir(dest):
        for rel, b in repo.walk_files(dest).items():
            try:
                obs["audio"][rel] = riff.pcm(b)
            except Exception:
                obs["audio"][rel] = b"<unreadable>"
    return obs


def sites_for(kind: str, offs, image: bytes, entry: int, all_values: bool, rng, type_sweep_entry: int = -1) -> List[faults.Site]:
    """one site per byte of the entry (AKAI: the 24-byte file entry; Roland: 32-byte directory + 48-byte parameter record)"""
    if kind == "akai":
        ranges = [(offs[entry], 24)]
        sib = offs[(entry + 1) % len(offs)]
    else:
        ranges = [(offs[entry][0], 32), (offs[entry][1], 48)]
        sib = offs[(entry + 1) % len(offs)][0]
    sites = []
    for base, n in ranges:
        for k in range(n):
            o = base + k
            orig = image[o]
            if all_values:
                vals = [v for v in range(256) if v != orig]
            else:
                sv = image[sib + k] if k < 16 else 0           # the sibling's byte at this position (name collisions)
                vals = faults.uniq([v for v in (0, 1, 0x0A, 0x20, 0x29, 0x41, 0x4C, 0x52, 0x70, 0x73, 0x7F, 0x80, 0xF3, 0xFF, orig ^ 1, sv) if v != orig])
            sites.append(faults.Site(f"entry{entry}.byte{o - ranges[0][0] if base == ranges[0][0] else 32 + k}", [o], 1, vals))
    # whole-name replacements: a sibling's name, and the L partner of the sibling that ends in R
    n = 12 if kind == "akai" else 16
    names = AKAI_NAMES if kind == "akai" else ROLAND_NAMES
    enc = (lambda s: akai_bytes(s, 12)) if kind == "akai" else (lambda s: (s.encode("ascii") + bytes(16))[:16])
    repl = [enc(x) for j, x in enumerate(names) if j != entry] + [enc(names[3][:-1] + "L"), enc(names[3][:-2] + " L")]
    sites.append(faults.Site(f"entry{entry}.byte0", [ranges[0][0] + k for k in range(n)], n, faults.uniq(repl)))
    if kind == "akai":
        # the type byte over its whole domain (one entry per run, chosen by the seed) or over the known type codes and their
        # neighbours: a known type without a parser (drum, QL, effect) is a different path from an unknown type
        known = (0x64, 0x70, 0x71, 0x73, 0x78, 0xF0, 0xF3)
        tvals = range(256) if (all_values or entry == type_sweep_entry) else sorted({(v + d) & 0xFF for v in known for d in (-1, 0, 1)})
        sites.append(faults.Site(f"entry{entry}.byte16", [ranges[0][0] + 16], 1, [v for v in tvals if v != image[ranges[0][0] + 16]], keep=True))
        # whole size field (3 bytes): sizes below / at / just above the 140-byte sample header
        sites.append(faults.Site(f"entry{entry}.byte17", [ranges[0][0] + 17 + k for k in range(3)], 3,
                                 [v.to_bytes(3, "little") for v in (0, 1, 100, 112, 139, 140, 141)]))
        sites.append(faults.Site(f"entry{entry}.byte20", [ranges[0][0] + 20 + k for k in range(2)], 2,
                                 [v.to_bytes(2, "little") for v in (0, 1, 3, 4, 9, 10, 11385, 11386, 65535)]))
    return sites


def fault_model(nvals, max_faults):
    return tlc.prepare("Faults", dict(NVals=nvals, MaxFaults=max_faults, EmitCases=True), invariants=["DistinctSites", "Emit"])


def run(chk: Check):
    thorough = chk.tier == "thorough"
    rng = random.Random(chk.seed)
    chk.rule = ("for an AKAI volume of 4 sample files and a Roland performance of 4 samples, each entry in turn: every byte of the entry's record "
                "(24 / 32+48 bytes) set to each value of a class set incl. the sibling's byte (quick) or all 255 other values (thorough), plus "
                "TLC-simulated multi-byte damage confined to the entry; after each damage ls of the directory and export are compared with "
                "the undamaged run restricted to the other entries; non-trivial = every case; distinct = (image kind, entry, fault set)")
    chk.run_tlc("Scans", tlc.cfg_text(spec="Spec", constants=dict(TrimBacktracks=False, TableScanRealigns=True, Kind="table", MaxSize=5 if thorough else 4, S=2, HeadLen=5),
                                      invariants=["StepBound", "Aligned"], properties=["Terminates"]),
                label="design: the file-table scan stays on entry boundaries after failed parses")
    r = chk.run_tlc("Scans", tlc.cfg_text(spec="Spec", constants=dict(TrimBacktracks=False, TableScanRealigns=False, Kind="table", MaxSize=3, S=2, HeadLen=5),
                                          invariants=["Aligned"]), expect_ok=False, label="sensitivity: no re-alignment must be refuted")
    chk.extra["spec_mutants_killed"] = {"TableScanRealigns": not r.ok}
    if r.ok:
        raise tlc.TlcError("sensitivity self-test failed")
    work = tlc.scratch_dir("c14_")
    pending_d16: List[Dict[str, Any]] = []
    try:
        for kind, (case, image, offs), names in (("akai", akai_base(chk.seed), AKAI_NAMES), ("roland", roland_base(chk.seed), ROLAND_NAMES)):
            base = observe(image, kind, work)
            prefix = "A/VOL/" if kind == "akai" else "Vol/Perf/"
            if base["err"] or base["names"][-len(names):] != names or any(prefix + n + ".wav" not in base["audio"] for n in names):
                raise tlc.TlcError(f"baseline of the {kind} image is not as generated: {base['err']} {base['names']}")
            for entry in range(len(names)):
                sites = sites_for(kind, offs, image, entry, thorough and kind == "akai" and entry < 2, rng, type_sweep_entry=chk.seed % len(names))
                nvals = [len(s.values) for s in sites]
                fs = [c["faults"] for c in chk.run_model(fault_model(nvals, 1), label=f"faults: every byte x value of {kind} entry {entry}").cases]
                multi = [c["faults"] for c in chk.run_model(fault_model(nvals, 4), simulate=f"num={20 if thorough else 5}", depth=6, seed=chk.seed + entry,
                                                            workers=2, label=f"faults: simulated multi-byte damage of {kind} entry {entry}").cases
                         if len(c["faults"]) > 1]
                # the simulation emits one case per generated successor: keep distinct fault sets, in a seeded order
                multi = sorted({json.dumps(m): m for m in multi}.values(), key=json.dumps)
                random.Random(chk.seed + 17 + entry).shuffle(multi)
                whole = [x for x in fs if sites[x[0][0] - 1].width > 1 or getattr(sites[x[0][0] - 1], "keep", False)]
                if not thorough:
                    rest = [x for x in fs if x not in whole]
                    random.Random(chk.seed + 18 + entry).shuffle(rest)
                    fs = whole + rest[: (70 if kind == "akai" else 40)]
                    multi = multi[:25]
                else:
                    multi = multi[:600 if kind == "akai" else 150]
                todo = fs + multi

                def one(f, image=image, sites=sites, kind=kind):
                    w = os.path.join(work, f"w{os.getpid()}")
                    os.makedirs(w, exist_ok=True)
                    return observe(faults.apply(image, sites, f), kind, w)
                for f, obs in zip(todo, faults.parallel(one, todo, procs=8)):
                    dmg = faults.apply(image, sites, f)
                    chk.evaluated((kind, entry, json.dumps(f)), nontrivial=True)
                    problems = []
                    if obs["err"] == "hang":
                        problems.append("the tool did not finish")
                    for j, n in enumerate(names):
                        if j == entry:
                            continue
                        if obs["names"] is None or n not in obs["names"]:
                            problems.append(f"item {n!r} is no longer listed under its name (listing: {obs['names']}, error: {obs['err']})")
                        rel = prefix + n + ".wav"
                        if obs["audio"].get(rel) != base["audio"][rel]:
                            problems.append(f"audio of {n!r} is no longer exported unchanged at {rel}")
                    payload = {"kind": kind, "entry": entry, "faults": f, "bytes": [(sites[s - 1].name, sites[s - 1].values[v - 1] if isinstance(sites[s - 1].values[v - 1], int) else list(sites[s - 1].values[v - 1])) for s, v in f]}
                    if not problems:
                        chk.agree()
                        continue
                    # did the damage hit the NAME and produce a valid name? then the naming machine decides (D16)
                    newname = damaged_name(kind, dmg, offs, entry)
                    if newname is not None and newname != names[entry]:
                        pending_d16.append({"payload": payload, "problems": problems, "names": [newname if j == entry else n for j, n in enumerate(names)],
                                            "obs_names": obs["names"], "kind": kind, "entry": entry, "files": sorted(obs["audio"])})
                    else:
                        chk.violation(payload, f"{kind} entry {entry} ({names[entry]!r}) damaged at {payload['bytes']}: " + "; ".join(problems)[:900])
        resolve_d16(chk, pending_d16)
    finally:
        shutil.rmtree(work, ignore_errors=True)
    chk.sample({"kind": "akai", "entry": 1, "fault": [["entry1.byte16", 255]], "meaning": "type byte of the second file entry set to 0xFF"})
    chk.assumptions += ["base directories hold no L/R pair and no duplicate names (name interactions are the subject of D16 and C05/C06)",
                        "a damaged item itself may disappear or change arbitrarily"]


def damaged_name(kind: str, image: bytes, offs, entry: int):
    """the name the damaged entry now carries, if it still decodes to a valid name"""
    if kind == "akai":
        raw = image[offs[entry]: offs[entry] + 12]
        inv = {v: k for k, v in __import__("harness.writers.fields", fromlist=["_AKAI"])._AKAI.items()}
        if any(b not in inv for b in raw):
            return None
        return "".join(inv[b] for b in raw).rstrip(" ")
    raw = image[offs[entry][0]: offs[entry][0] + 16]
    if any(b >= 0x80 for b in raw):
        return None
    return raw.rstrip(b"\x00").decode("ascii")


def resolve_d16(chk: Check, pending: List[Dict[str, Any]]):
    """ask Names.tla what the naming machine makes of the sibling names with the damaged name; if it predicts exactly the
    listing / files observed, the change of the siblings is the known finding D16, otherwise a violation"""
    for kind in ("akai", "roland"):
        todo = [p for p in pending if p["kind"] == kind]
        if not todo:
            continue
        pool, seqs = [], []
        ok_chars = set("ABCDEFGHIJKLMNOPQRSTUVWXYZabcdefghijklmnopqrstuvwxyz0123456789 \t-=:.@#&+()/\\'\"`_~!,*?<>|\x0c")
        usable = []
        for p in todo:
            if all(c in ok_chars for n in p["names"] for c in n) and all(p["names"]):
                usable.append(p)
                for n in p["names"]:
                    if n not in pool:
                        pool.append(n)
            else:
                chk.violation(p["payload"], f"{kind} entry {p['entry']}: " + "; ".join(p["problems"])[:600])
        if not usable:
            continue
        extra = ["Qq_patch9"] if kind == "roland" else []
        for n in extra:
            if n not in pool:
                pool.append(n)
        seqs = [[pool.index(n) + 1 for n in (extra + p["names"])] for p in usable]
        res = chk.run_model(naming.model(pool, 5, False, "akai" if kind == "akai" else "other", fixed=seqs),
                            label=f"naming machine on {len(seqs)} damaged-name sibling sets ({kind})")
        pred = {tuple(naming.S(n) for n in c["names"]): c for c in res.cases}
        for p in usable:
            c = pred.get(tuple(extra + p["names"]))
            want_files = sorted(("A/VOL/" if kind == "akai" else "Vol/Perf/") + naming.S(o["name"]) + ".wav" for o in (c["outputs"] if c else [])
                                if not (kind == "roland" and o["ch"] == [1]))
            want_names = [naming.S(n) for n in c["safe"]] if c else None
            if c and want_names == p["obs_names"] and want_files == p["files"]:
                chk.violation(p["payload"], f"{kind}: damaged name {p['names'][p['entry']]!r} changes its siblings: " + "; ".join(p["problems"])[:400], finding="D16")
            else:
                chk.violation(p["payload"], f"{kind} entry {p['entry']} renamed to {p['names'][p['entry']]!r}: " + "; ".join(p["problems"])[:500] +
                              f" (naming machine predicts listing {want_names}, files {want_files}; observed {p['obs_names']}, {p['files']})")


def replay(chk: Check, path: str):
    rec = json.load(open(path))["case"]
    kind, entry = rec["kind"], rec["entry"]
    case, image, offs = (akai_base if kind == "akai" else roland_base)(chk.seed)
    names = AKAI_NAMES if kind == "akai" else ROLAND_NAMES
    work = tlc.scratch_dir("c14r_")
    try:
        buf = bytearray(image)
        for (nm, val) in rec["bytes"]:
            k = int(nm.split("byte")[1])
            o = (offs[entry] + k) if kind == "akai" else (offs[entry][0] + k if k < 32 else offs[entry][1] + k - 32)
            if isinstance(val, int):
                buf[o] = val
            else:
                b = bytes(val) if not isinstance(val, str) else eval(val)
                buf[o:o + len(b)] = b
        base, obs = observe(image, kind, work), observe(bytes(buf), kind, work)
        prefix = "A/VOL/" if kind == "akai" else "Vol/Perf/"
        chk.evaluated(("replay", json.dumps(rec["bytes"])))
        bad = [n for j, n in enumerate(names) if j != entry and (obs["names"] is None or n not in obs["names"] or
                                                                 obs["audio"].get(prefix + n + ".wav") != base["audio"][prefix + n + ".wav"])]
        if bad:
            chk.violation(rec, f"{kind} entry {entry} damaged at {rec['bytes']}: other items affected: {bad}")
        else:
            chk.agree()
    finally:
        shutil.rmtree(work, ignore_errors=True)
    chk.run_tlc("Scans", tlc.cfg_text(spec="Spec", constants=dict(TrimBacktracks=False, TableScanRealigns=True, Kind="table", MaxSize=3, S=2, HeadLen=5), invariants=["Aligned"]),
                label="design (replay context)")
