"""C15 - on a truncated image every reported file is a well-formed prefix.
Specifications: spec/AkaiImage.tla (Needs: the last byte each exported file depends on; Cuts: the cut points), spec/RolandImage.tla and
spec/Cue.tla (extents / windows), spec/Streams.tla (ShortFileGivesPrefix over truncated files, checked in C08), spec/WavTrace.tla
(every reported file is a well-formed WAV)."""
from __future__ import annotations

import json
import os
import shutil
from typing import Any, Dict, List, Tuple

from .. import tlc, cue, naming
from ..core import Check
from .. import repo
from ..readers import riff
from ..writers import akai as aw, roland as rw
from . import c01, c02, c03, c04
from .c07 import with_watchdog, Hang


def export_observed(data: bytes, work: str, name: str, extra: Dict[str, bytes] = None, cue_text: List[str] = None) -> Dict[str, Any]:
    d = os.path.join(work, "run")
    shutil.rmtree(d, ignore_errors=True)
    os.makedirs(d)
    p = os.path.join(d, name)
    with open(p, "wb") as fh:
        fh.write(data)
    if cue_text is not None:
        p = os.path.join(d, "image.cue")
        with open(p, "w", newline="") as fh:
            fh.writelines(cue_text)
    dest = os.path.join(d, "out")
    obs = {"lines": [], "files": {}, "err": ""}
    import io, contextlib
    buf = io.StringIO()

    def go():
        from smpl_extract.actions import export_samples_to_wav
        with contextlib.redirect_stdout(buf), contextlib.redirect_stderr(io.StringIO()):
            export_samples_to_wav(p, dest)
    try:
        with_watchdog(go, 60.0)
    except Hang:
        obs["err"] = "hang"
    except BaseException as e:  # noqa
        obs["err"] = f"{type(e).__name__}: {e}"
    # lines printed before an abort still count as reported
    obs["lines"] = [l[len("Exported "):] for l in buf.getvalue().splitlines() if l.startswith("Exported ")]
    obs["files"] = repo.walk_files(dest) if os.path.isdir(dest) else {}
    return obs


def observe_cuts(image: bytes, cuts: List[int], work: str, name: str, cue_text: List[str] = None) -> List[Dict[str, Any]]:
    """export_observed for every cut of one image, spread over forked workers (each with its own scratch directory)"""
    from .. import faults

    def one(cut):
        w = os.path.join(work, f"w{os.getpid()}")
        os.makedirs(w, exist_ok=True)
        return export_observed(image[:cut], w, name, cue_text=cue_text)
    return faults.parallel(one, list(cuts), procs=8)


def judge_cut(chk: Check, label: str, cut: int, obs: Dict[str, Any], full: Dict[str, bytes], needs: List[Tuple[str, int]],
              payload: dict, records: List[dict]):
    problems, d15 = [], []
    if obs["err"] == "hang":
        problems.append("export did not terminate")
    full_pcm = {k: riff.pcm(v) for k, v in full.items()}
    for rel in obs["lines"]:
        if rel not in obs["files"]:
            problems.append(f"{rel} reported but not on disk")
            continue
        b = obs["files"][rel]
        records.append(c04.to_record(f"{label} cut {cut}: {rel}", b))
        try:
            pcm = riff.pcm(b)
        except Exception:
            problems.append(f"{rel}: reported file has no data chunk")
            continue
        if rel in full_pcm:
            if full_pcm[rel][:len(pcm)] != pcm:
                problems.append(f"{rel}: PCM ({len(pcm)} bytes) is not a prefix of the complete image's file ({len(full_pcm[rel])} bytes)")
        else:
            # D15: the surviving half of an L/R pair, written mono under a path the full run never produces
            stem = None
            for suf, ch in (("-L.wav", 0), ("-R.wav", 1), (" L.wav", 0), (" R.wav", 1)):
                if rel.endswith(suf) and rel[: -len(suf)] + ".wav" in full:
                    stem, chan = rel[: -len(suf)] + ".wav", ch
            if stem is not None:
                r = riff.parse(full[stem])
                chans = riff.deinterleave(full_pcm[stem], r["fmt"]["channels"])
                if r["fmt"]["channels"] == 2 and chans[chan][:len(pcm)] == pcm:
                    d15.append(f"{rel}: surviving half of the pair {stem}, exported mono under a path absent from the complete run")
                    continue
            problems.append(f"{rel}: path does not occur in the complete run")
    for rel, need in needs:
        if need <= cut:
            got = obs["files"].get(rel)
            if rel not in obs["lines"] or got is None or riff.pcm(got) != full_pcm.get(rel):
                problems.append(f"{rel} depends on nothing beyond byte {need} <= cut {cut} but was not exported complete ({obs['err'] or 'no error'})")
    chk.evaluated((label, cut, json.dumps(payload.get("id"))), nontrivial=0 < cut)
    if problems:
        chk.violation(dict(payload, cut=cut), f"{label} cut at {cut}: " + "; ".join(problems)[:1000])
    elif d15:
        chk.violation(dict(payload, cut=cut), f"{label} cut at {cut}: " + "; ".join(d15)[:600], finding="D15")
    else:
        chk.agree()


def run(chk: Check):
    thorough = chk.tier == "thorough"
    chk.rule = ("AkaiImage.tla computes for every exported file the last byte it depends on (partition head, its volume's file table up to the "
                "end marker, sample header(s), data extents) and the cut points (every sector boundary +-1, points inside the header, the SAT, "
                "each directory, each sample header, each last data sector); Roland: cluster boundaries +-1 and metadata cuts; CDDA: frame "
                "boundaries +-1..3; each cut image is exported by the real tool: every reported file must be a well-formed WAV (WavTrace.tla) "
                "whose PCM is a prefix of the complete run's file at that path, and files entirely before the cut must be complete")
    work = tlc.scratch_dir("c15_")
    records: List[dict] = []
    try:
        # AKAI
        cases = c01.generate(chk, 640 if not thorough else 1600, chk.seed + 41, label="AKAI images for truncation", nsect=14, maxparts=2, maxvols=2, maxfiles=3)
        cases += c01.generate(chk, 160 if not thorough else 480, chk.seed + 43, label="AKAI images with directory order reversed against allocation order",
                              nsect=20, maxparts=1, maxvols=2, maxfiles=3, inverted=True)
        SAMPLE, PARSED = (243, 115), (243, 115)                 # files `export` writes / files whose header parse reads the data sectors
        def inversions(c):      # directory order vs allocation order: a later SAMPLE lying physically before an earlier parsed file
            n = 0
            for p in c["parts"]:
                for v in p["vols"]:
                    fs = v["files"]
                    n += sum(1 for i in range(len(fs)) for j in range(i + 1, len(fs))
                             if not fs[j]["pair"] and fs[i]["ftype"] in PARSED and fs[j]["ftype"] in SAMPLE
                             and fs[i]["chain"][0] > max(fs[j]["chain"]))
            return n
        def late_dirs(c):       # volumes (with >= 2 sample files) whose file table lies physically BEHIND the data of all its files
            return sum(1 for p in c["parts"] for v in p["vols"]
                       if sum(1 for f in v["files"] if f["ftype"] in SAMPLE) >= 2 and min(v["dir"]) > max(x for f in v["files"] for x in f["chain"]))
        late = [c for c in sorted(cases, key=lambda c: -late_dirs(c)) if late_dirs(c) > 0][:(2 if not thorough else 8)]
        chk.extra["late_directory_layouts"] = [late_dirs(c) for c in late]
        if not late:
            raise tlc.TlcError("no generated AKAI image has a file table behind the data of its files")
        inv = [c for c in sorted(cases, key=lambda c: -inversions(c)) if inversions(c) > 0][:(3 if not thorough else 10)]
        chk.extra["inverted_layouts"] = [inversions(c) for c in inv]
        if not inv:
            raise tlc.TlcError("no generated AKAI image lists a parsed file before a sample that lies physically in front of it")
        pick = sorted(cases, key=lambda c: (-len(c["parts"]), -sum(len(v["files"]) for p in c["parts"] for v in p["vols"])))
        pick = (pick[:3] + [c for c in cases if any(f["pair"] for p in c["parts"] for v in p["vols"] for f in v["files"])][:2]) if not thorough else \
               (pick[:12] + [c for c in cases if any(f["pair"] for p in c["parts"] for v in p["vols"] for f in v["files"])][:8])
        pick = inv + [c for c in late if c not in inv] + [c for c in pick if c not in inv and c not in late]
        fielded = late[:1] + sorted(pick, key=lambda c: (-len(c["parts"]), -len(c["needs"])))[:3]
        for ci, case in enumerate(pick):
            image = aw.build_image(case, chk.seed + ci)
            full = export_observed(image, work, "image.img")
            if full["err"]:
                raise tlc.TlcError(f"complete AKAI image does not export: {full['err']}")
            needs = [("/".join(n["path"]) + ".wav", n["need"]) for n in case["needs"]]
            cuts = sorted(set(case["cuts"]))
            if not thorough:          # all cuts inside structures, a stride of the boundary cuts
                inner = sorted(set(case["inner_cuts"]))
                cuts = sorted(set(inner + cuts[:: max(1, len(cuts) // 50)]))
            # every byte position inside one record of each table kind (partition head, SAT start, file table, sample header):
            # quick: on the images with the most partitions; thorough: on all
            if thorough or case in fielded:
                cuts = sorted(set(cuts) | {c for c in case["field_cuts"] if c <= len(image)})
            for cut, obs in zip(cuts, observe_cuts(image, cuts, work, "image.img")):
                judge_cut(chk, "akai", cut, obs, full["files"], needs, {"id": ci, "case": case, "seed": chk.seed + ci, "kind": "akai"}, records)
        # Roland
        rcases = [c for c in c02.generate(chk, 48, chk.seed + 42, label="Roland images for truncation") if len(c["img"]["samples"]) >= 2 and c["expected"]]
        def backward(case):
            """clusters of chains that step back to a lower cluster: the part behind the cut precedes, in the chain, a part that is present"""
            out = set()
            for e in case["expected"]:
                for s in e["samples"]:
                    cl = [x["cluster"] for x in s["extents"]]
                    for a, b in zip(cl, cl[1:]):
                        if b < a:
                            out |= {a, b}
            return out
        with_back = [c for c in rcases if backward(c)]
        plain = [c for c in rcases if not backward(c)]
        chosen = (with_back[:4] + plain[:2]) if thorough else (with_back[:2] + plain[:1])
        if not with_back:
            raise tlc.TlcError("no Roland image with a chain that steps back to a lower cluster was generated")
        chk.extra["roland_images_with_backward_chains"] = len([c for c in chosen if backward(c)])
        for ci, case in enumerate(chosen):
            image = rw.build_image(case, chk.seed + ci)
            full = export_observed(image, work, "image.img")
            if full["err"]:
                raise tlc.TlcError(f"complete Roland image does not export: {full['err']}")
            C, base = case["C"], rw.A["data_fat"]
            needs = []
            for e in case["expected"]:
                for s in e["samples"]:
                    end = max([base + x["cluster"] * C + x["off"] + x["len"] for x in s["extents"]] + [rw.A["data"]])
                    needs.append((f"{e['volume']}/{e['performance']}/{s['name']}.wav", end))
            bounds = [base + k * C for k in range(2, case["nclusters"] + 1)]
            cuts = sorted(set([0, 100, 600, rw.A["fat"] + 10, rw.A["sample_dir"] + 5, rw.A["sample_param"] + 7, rw.A["data"] - 1]
                              + [b + d for b in bounds for d in (-1, 0, 1, C // 2)]))
            cuts = [c for c in cuts if c <= len(image)]
            if not thorough:
                keep = {base + k * C + d for k in backward(case) for d in (0, 1, C // 2) if base + k * C + d <= len(image)}
                cuts = sorted(set(cuts[:: max(1, len(cuts) // 30)]) | keep)
            for cut, obs in zip(cuts, observe_cuts(image, cuts, work, "image.img")):
                judge_cut(chk, "roland", cut, obs, full["files"], needs, {"id": ci, "case": case, "seed": chk.seed + ci, "kind": "roland"}, records)
        # CDDA
        res = chk.run_model(c03.model(3, c03.TIMES_Q[:4], {2352, 4703}, others=()), label="CDDA sheets for truncation")
        sheets = [c for c in res.cases if c["ins"]["pos"] == 0 and len(c["windows"]) >= 2][:: (4 if thorough else 25)]
        for ci, case in enumerate(sheets):
            data = cue.bin_bytes(case["binlen"], ci)
            text = cue.render(case["lines"], 0, ci)
            full = export_observed(data, work, "image.bin", cue_text=text)
            names = [(w["title"] if not w["untitled"] else f"Untitled Track {w['pos']}") + ".wav" for w in case["windows"]]
            needs = [(n, w["off"] + w["size"]) for n, w in zip(names[:-1], case["windows"][:-1])]
            cuts = sorted({max(0, w["off"] + d) for w in case["windows"] for d in (-1, 0, 1, 2, 3, 4, 1000)} | {case["binlen"] - 1, 0})
            cuts = [c for c in cuts if c <= case["binlen"]][:: (1 if thorough else 3)]
            for cut, obs in zip(cuts, observe_cuts(data, cuts, work, "image.bin", cue_text=text)):
                judge_cut(chk, "cdda", cut, obs, full["files"], needs, {"id": ci, "case": case, "kind": "cdda"}, records)
        rej = c04.validate(chk, records[:20000], f"trace validation: {min(len(records), 20000)} files reported from truncated images are well-formed WAVs")
        for rj in rej:
            chk.violation({"record": records[rj["line"] - 1]}, f"{records[rj['line'] - 1]['id']}: not a well-formed WAV: {rj['clauses']}")
        chk.extra["reported_files_validated"] = min(len(records), 20000)
    finally:
        shutil.rmtree(work, ignore_errors=True)
    chk.sample({"kind": "akai", "cut": 8192 * 5 + 70, "meaning": "inside a sample header"})
    chk.assumptions += ["the complete run of each image is the reference for 'what the complete image yields for the same path'",
                        "lines printed before an abort count as reported files"]


def replay(chk: Check, path: str):
    rec = json.load(open(path))["case"]
    work = tlc.scratch_dir("c15r_")
    records: List[dict] = []
    try:
        if rec["kind"] == "akai":
            image = aw.build_image(rec["case"], rec["seed"])
            full = export_observed(image, work, "image.img")
            needs = [("/".join(n["path"]) + ".wav", n["need"]) for n in rec["case"]["needs"]]
            judge_cut(chk, "akai", rec["cut"], export_observed(image[:rec["cut"]], work, "image.img"), full["files"], needs, rec, records)
        elif rec["kind"] == "roland":
            image = rw.build_image(rec["case"], rec["seed"])
            full = export_observed(image, work, "image.img")
            judge_cut(chk, "roland", rec["cut"], export_observed(image[:rec["cut"]], work, "image.img"), full["files"], [], rec, records)
        else:
            raise tlc.TlcError("replay supported for akai / roland cuts")
    finally:
        shutil.rmtree(work, ignore_errors=True)
    if records:
        c04.validate(chk, records, "replay: reported files")
