"""C16 - results depend only on the image bytes, not on what was looked at before.
Specifications: spec/Session.tla (histories, ResultEqualsFresh), spec/ExportTrace.tla and spec/StreamTrace.tla
(trace validation of the executions recorded while the histories run)."""
from __future__ import annotations

import hashlib
import json
import os
import shutil
from typing import Any, Dict, List

from .. import tlc, traces, cue, naming
from ..core import Check
from .. import repo
from ..writers import akai as aw, roland as rw

TARGETS = [["root"], ["dir", 1], ["dir", 2], ["file", 1, 1], ["file", 2, 1], ["bad"]]


def model(max_ops: int, rewind: bool = True, emit: bool = True):
    return tlc.prepare("Session", dict(NDirs=2, NFiles=2, Targets=tlc.SetOf(TARGETS), MaxOps=max_ops, RewindOnExport=rewind, EmitCases=emit),
                       invariants=["ResultEqualsFresh", "Emit"])


def images(work: str, seed: int) -> List[Dict[str, Any]]:
    out = []
    a = naming.akai_dirs_case(["VOL A", "VOL B", "VOL A"])         # the third volume is a raw-name twin of the first (listed as 'VOL A (2)')
    from .c04 import loop_table
    a["parts"][0]["vols"][0]["files"][0]["hdr"] = {"loop_type": 1, "loops": loop_table([(40, 0, 10, 250), (30, 0, 5, 0), (20, 0, 7, 9999)])}
    a["parts"][0]["vols"][0]["files"].append({"name": "S9-L", "stem": "S9", "ftype": 243, "chain": [a["nsect"]], "cnt": 77, "ps": 0, "pe": 77,
                                              "rate": 22050, "pair": "L"})
    a["parts"][0]["vols"][0]["files"].append({"name": "S9-R", "stem": "S9", "ftype": 243, "chain": [a["nsect"] + 1], "cnt": 77, "ps": 0, "pe": 77,
                                              "rate": 22050, "pair": "R"})
    a["parts"][0]["sat"] += [[a["nsect"], 49152], [a["nsect"] + 1, 49152]]
    a["nsect"] += 2
    # a file and a directory of OTHER branches carry the same raw name ending in '-' (export names differ: 'KICK-' / 'KICK-0')
    n0 = a["nsect"]
    a["parts"][0]["vols"][0]["files"].append({"name": "KICK-", "stem": "", "ftype": 243, "chain": [n0], "cnt": 31, "ps": 0, "pe": 31, "rate": 44100, "pair": ""})
    a["parts"][0]["sat"].append([n0, 49152])
    a["nsect"] += 1
    b = naming.akai_dirs_case(["KICK-", "VOL."])
    b["parts"][0]["vols"][1]["files"][0]["name"] = "KICK-"
    for part in (a, b):
        part["nsect"] = max(a["nsect"], b["nsect"])
    a["parts"].append(b["parts"][0])
    p = os.path.join(work, "akai.img")
    open(p, "wb").write(aw.build_image(a, seed))
    out.append({"kind": "akai", "path": p, "map": {"root": "", "dir1": "A:/VOL A", "dir2": "B:/KICK-", "file": "A:/VOL A/S0", "file2": "B:/KICK-/S0",
                                                  "bad": "A:/nope/x"}})
    # the same image addressed through its twin directories: a request inside one twin, then inside the other
    out.append({"kind": "akai", "path": p, "map": {"root": "A:", "dir1": "A:/VOL A", "dir2": "A:/VOL A (2)", "file": "A:/VOL A/S0", "file2": "A:/VOL A (2)/S2",
                                                  "bad": "A:/VOL A (3)"}})
    # damaged images: the scan from offset 0 fails and finds no partition, while a well-formed partition starts exactly where
    # the failed parse stops (after the size word and the damaged constant / after a short head): whatever a fresh object
    # answers - nothing to list, nothing to export - a used object must answer too
    small = aw.build_image(naming.akai_files_case(["TONE", "BASS-L", "BASS-R"], [60, 70, 70]), seed)
    for tag, prefix in (("junk4", b"\x80\x00\xaa\xaa"), ("junk2", b"\x80\x00"), ("junk6", b"\x80\x00\x00\x00\x55\x55")):
        pj = os.path.join(work, f"akai_{tag}.img")
        open(pj, "wb").write(prefix + small)
        out.append({"kind": f"akai-{tag}", "path": pj, "map": {"root": "", "dir1": "A:", "dir2": "A:/VOL", "file": "A:/VOL/TONE", "file2": "A:/VOL/BASS-L",
                                                              "bad": "B:"}})
    r = naming.roland_dirs_case(["Perf X", "Lead-"], "performance")
    r["img"]["samples"][0]["name"] = "Lead-"            # a sample of the FIRST performance named like the second performance
    # a sample used by BOTH performances, stored in a permuted three-cluster chain behind a leading-cluster offset: every
    # further request for its chain must resolve to the same clusters
    r["img"]["samples"].append({"name": "Both", "chain": [4, 6, 5], "ctop": 1, "mode": 2, "freq": 1, "pts": [0, 0, 6000, 0, 6000], "key": 60})
    r["fat"] += [[4, 6], [6, 5], [5, 65528]]
    r["nclusters"] = 9
    r["img"]["partials"][0]["refs"] = [0, 2]
    r["img"]["partials"][1]["refs"] = [1, 2]
    p = os.path.join(work, "roland.img")
    open(p, "wb").write(rw.build_image(r, seed))
    out.append({"kind": "roland", "path": p, "map": {"root": "", "dir1": "Vol", "dir2": "Vol/Lead-", "file": "Vol/Perf X/Lead-", "file2": "Vol/Lead-/Both", "bad": "Vol/zz"}})
    lines, binlen = naming.cue_lines(["One", "Two", "Three"])
    cpath, _ = cue.write_pair(os.path.join(work, "cd"), cue.render(lines, 0, seed), binlen + 6, seed)
    out.append({"kind": "cdda", "path": cpath, "map": {"root": "", "dir1": "Two", "dir2": "Three", "file": "One", "file2": "Three", "bad": "Four"}})
    return out


def op_path(img: dict, op: list) -> str:
    m = img["map"]
    return {"root": m["root"], "dir": m["dir1"] if len(op) > 1 and op[1] == 1 else m["dir2"],
            "file": m["file"] if len(op) < 2 or op[1] == 1 else m["file2"], "bad": m["bad"]}[op[0]]


def do_op(image_obj, img: dict, op: list, work: str, tag: str, trace_path=None) -> Any:
    if op[0] == "export":
        dest = os.path.join(work, f"out_{tag}")
        shutil.rmtree(dest, ignore_errors=True)
        try:
            if trace_path:
                with traces.recording(trace_path):
                    lines = repo.export(image_obj, dest)
            else:
                lines = repo.export(image_obj, dest)
            files = {k: hashlib.sha1(v).hexdigest() for k, v in repo.walk_files(dest).items()} if os.path.isdir(dest) else {}
            return ["export", sorted(lines), files]
        except BaseException as e:  # noqa
            return ["export-exc", f"{type(e).__name__}: {e}"]
        finally:
            shutil.rmtree(dest, ignore_errors=True)
    try:
        return ["ls", repo.ls(image_obj, op_path(img, op))]
    except BaseException as e:  # noqa
        return ["ls-exc", f"{type(e).__name__}: {e}"]


def run(chk: Check):
    thorough = chk.tier == "thorough"
    chk.rule = ("Session.tla: all histories of <= 3 (quick) / 4 (thorough) requests over {ls root, ls dir1, ls dir2, ls file, ls bad path, export}; "
                "each history runs on ONE opened image object (AKAI with an L/R pair, Roland, CDDA) and every answer is compared with the answer "
                "of a fresh object; the image file hash is compared before/after; export executions are recorded through the hooks and validated "
                "by ExportTrace.tla / StreamTrace.tla; non-trivial = history contains an export followed by another request")
    n = 4 if thorough else 3
    chk.run_model(model(n, True, False), label=f"design: ResultEqualsFresh over all histories of <= {n} requests")
    r = chk.run_model(model(2, False, False), expect_ok=False, label="sensitivity: RewindOnExport = FALSE must be refuted")
    chk.extra["spec_mutants_killed"] = {"RewindOnExport": not r.ok}
    if r.ok:
        raise tlc.TlcError("sensitivity self-test failed")
    hists = []
    for k in range(1, n + 1):
        hists += [c["ops"] for c in chk.run_model(model(k), label=f"histories of exactly {k} requests").cases]
    chk.exhaustive = True
    work = tlc.scratch_dir("c16_")
    ex_events, st_events = [], []
    tid = 0
    try:
        for img in images(work, chk.seed):
            before = hashlib.sha1(open(img["path"], "rb").read()).hexdigest()
            fresh: Dict[str, Any] = {}
            for op in TARGETS + [["export"]]:
                fresh[json.dumps(op)] = do_op(repo.open_image(img["path"]), img, op, work, "fresh")
                if fresh[json.dumps(op)][0].endswith("exc"):
                    chk.violation({"kind": img["kind"], "ops": [op]}, f"{img['kind']}: fresh object: {op} raised {fresh[json.dumps(op)][1]}")
            todo = hists if thorough else hists[:: max(1, len(hists) // 130)] + [h for h in hists if h.count(["export"]) >= 2][:12]
            for hi, ops in enumerate(todo):
                obj = repo.open_image(img["path"])
                chk.evaluated((img["kind"], json.dumps(ops)), nontrivial=["export"] in ops[:-1])
                ok = True
                for si, op in enumerate(ops):
                    tp = None
                    if op[0] == "export" and (thorough or hi % 9 == 0):
                        tp = os.path.join(work, f"trace_{tid}.ndjson")
                    got = do_op(obj, img, op, work, "hist", tp)
                    if tp:
                        ex_events += traces.load(tp, tid, {"SetLevel", "AddSample", "Write", "FinishLevel"})
                        st_events += traces.load(tp, tid, {"View", "Seek", "Read"})
                        tid += 1
                        os.remove(tp)
                    if got != fresh[json.dumps(op)]:
                        ok = False
                        chk.violation({"kind": img["kind"], "ops": ops, "step": si},
                                      f"{img['kind']}: after {ops[:si]}, request {op} answers differently from a fresh object: "
                                      f"{str(got)[:300]} vs {str(fresh[json.dumps(op)])[:300]}")
                        break
                if ok:
                    chk.agree()
            after = hashlib.sha1(open(img["path"], "rb").read()).hexdigest()
            if before != after:
                chk.violation({"kind": img["kind"], "modified": True}, f"{img['kind']}: the image file was modified")
        # trace validation of the recorded export executions
        rej = traces.validate(chk, "ExportTrace", ex_events, f"trace validation: export-level protocol, {tid} executions")
        rej_export = list(rej)
        for rj in rej:
            chk.violation({"trace": "export", "events": ex_events[max(0, rj["line"] - 4): rj["line"]]}, f"export trace rejected: {rj['clauses']}")
        # stream traces: views are created before recording starts, so register them from their first event
        st = _with_views(st_events)
        rej = traces.validate(chk, "StreamTrace", st[:60000], f"trace validation: stream cursor protocol, {min(len(st), 60000)} events")
        for rj in rej:
            chk.violation({"trace": "stream", "events": st[max(0, rj["line"] - 3): rj["line"]]}, f"stream trace rejected: {rj['clauses']}")
        chk.extra["trace_events_validated"] = {"export": len(ex_events), "stream": min(len(st), 60000)}
        # binding self-test: corrupt one field of a genuine trace
        if ex_events and not rej_export:
            bad = [dict(e) for e in ex_events[:40]]
            for e in bad:
                if e["event"] == "Write":
                    e["streams"] = [999999]
                    break
            if not traces.validate(chk, "ExportTrace", bad, "binding self-test (corrupted export trace)"):
                raise tlc.TlcError("binding self-test failed: corrupted export trace accepted")
            chk.extra["binding_selftest"] = "corrupted Write event rejected"
    finally:
        shutil.rmtree(work, ignore_errors=True)
    chk.sample({"history": [["ls", "A:/VOL A"], ["export"], ["ls", "A:/VOL A/S0"], ["export"]]})
    chk.assumptions += ["answers are compared as printed text / exported file hashes", "ls targets are two directories, one leaf and one missing path per image"]


def _with_views(events: List[dict]) -> List[dict]:
    """views created before recording started have no View event: synthesise one from the first event seen for that id
    (size unknown -> taken as the largest position ever logged, which only weakens the clip check for that view)"""
    out, seen, size = [], set(), {}
    for e in events:
        if e["event"] == "View":
            seen.add((e["tid"], e["id"]))
    mx: Dict[Any, int] = {}
    for e in events:
        if e["event"] in ("Read", "Seek"):
            k = (e["tid"], e["id"])
            mx[k] = max(mx.get(k, 0), e["after"])
    for e in events:
        k = (e["tid"], e.get("id"))
        if e["event"] in ("Read", "Seek") and k not in seen:
            seen.add(k)
            start = e["pos"] if e["event"] == "Read" else (e["start"] if e["whence"] == 1 else 0)
            out.append({"event": "View", "id": e["id"], "size": mx[k], "pos": start, "tid": e["tid"], "short": False, "cls": "?", "parent": 0, "seq": 0})
        out.append(e)
    return out


def replay(chk: Check, path: str):
    rec = json.load(open(path))["case"]
    work = tlc.scratch_dir("c16r_")
    try:
        for img in images(work, chk.seed):
            if img["kind"] != rec.get("kind"):
                continue
            obj = repo.open_image(img["path"])
            chk.evaluated(("replay", json.dumps(rec["ops"])))
            for si, op in enumerate(rec["ops"]):
                got = do_op(obj, img, op, work, "hist")
                fr = do_op(repo.open_image(img["path"]), img, op, work, "fresh")
                if got != fr:
                    chk.violation(rec, f"{img['kind']}: after {rec['ops'][:si]}, request {op} answers differently from a fresh object")
                    break
            else:
                chk.agree()
    finally:
        shutil.rmtree(work, ignore_errors=True)
    chk.run_model(model(2, True, False), label="design (replay context)")
