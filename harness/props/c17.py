"""C17 - cue sheets are read the same regardless of case, spacing and unknown lines.  Spec: spec/Cue.tla."""
from __future__ import annotations

import json
import os
import shutil

from .. import tlc, cue
from ..core import Check
from .. import repo
from .c03 import model, TIMES_Q, TIMES_T, OTHERS, long_cases


def check_meaning(chk: Check, case: dict, style: int, seed: int):
    text = cue.render(case["lines"], style, seed)
    got = cue.observe_meaning(text)
    want = case["meaning"]
    chk.evaluated(("c17", json.dumps(case["lines"]), style), nontrivial=case["ins"]["pos"] != 0 or style != 0)
    if got != want:
        chk.violation({"case": {k: case[k] for k in ("lines", "canonical", "ins", "meaning", "binlen", "windows", "kind")},
                       "style": style, "seed": seed, "text": text},
                      f"style {cue.STYLES[style % len(cue.STYLES)]}, insertion {case['ins']}: parsed meaning {got} != canonical meaning {want}")
        return False
    chk.agree()
    return True


def check_image(chk: Check, case: dict, style: int, seed: int):
    """the image produced is the same: ls of the decorated sheet equals ls of the canonical sheet"""
    work = tlc.scratch_dir("c17_")
    try:
        outs = []
        for tag, lines, st in (("canon", case["canonical"], 0), ("deco", case["lines"], style)):
            d = os.path.join(work, tag)
            cpath, _ = cue.write_pair(d, cue.render(lines, st, seed), case["binlen"], seed)
            try:
                img = repo.open_image(cpath)
                o = type(img).__name__ + "\n" + repo.ls(img, "")
                for w in case["windows"]:
                    name = w["title"] if not w["untitled"] else f"Untitled Track {w['pos']}"
                    o += repo.ls(img, name)
            except BaseException as e:  # noqa
                o = f"EXC {type(e).__name__}: {e}"
            outs.append(o)
        chk.evaluated(("c17img", json.dumps(case["lines"]), style), nontrivial=True)
        if outs[0] != outs[1] or outs[0].startswith("EXC") or not outs[0].startswith("CompactDiskAudioImage"):
            chk.violation({"case": case, "style": style, "seed": seed, "image": True},
                          f"image from decorated sheet differs from the canonical one:\n{outs[0][:300]}\n---\n{outs[1][:300]}")
        else:
            chk.agree()
    finally:
        shutil.rmtree(work, ignore_errors=True)


def check_not_cue(chk: Check, case: dict, seed: int):
    """text without a FILE line, or non-ASCII text, is not treated as a cue sheet"""
    work = tlc.scratch_dir("c17n_")
    try:
        base = cue.render(case["canonical"], 0, seed)
        ascii_text = "".join(base).encode("ascii")
        variants = {
            "no_file_line": [l for l in base if not l.upper().lstrip().startswith("FILE")],
            # not ASCII, in every way a text file can be not ASCII: a lone high byte (Latin-1), well-formed UTF-8 in a remark and
            # in a title, a UTF-8 byte-order mark, UTF-16
            "non_ascii": ascii_text.replace(b"\n", b"\nREM caf\xe9\n", 1),
            "utf8_remark": ascii_text.replace(b"\n", b"\nREM \xc2\xa9 caf\xc3\xa9\n", 1),
            "utf8_title": ascii_text.replace(b"INDEX", b'TITLE "caf\xc3\xa9"\n    INDEX', 1) if b"INDEX" in ascii_text else ascii_text + b'REM \xc3\xa9\n',
            "utf8_bom": b"\xef\xbb\xbf" + ascii_text,
            "utf16": "".join(base).encode("utf-16"),
        }
        for tag, lines in variants.items():
            d = os.path.join(work, tag)
            os.makedirs(d, exist_ok=True)
            with open(os.path.join(d, "image.bin"), "wb") as fh:
                fh.write(cue.bin_bytes(case["binlen"], seed))
            p = os.path.join(d, "image.cue")
            if isinstance(lines, bytes):
                with open(p, "wb") as fh:
                    fh.write(lines)
            else:
                with open(p, "w", newline="") as fh:
                    fh.writelines(lines)
            chk.evaluated(("c17neg", tag, json.dumps(case["canonical"])), nontrivial=True)
            try:
                img = repo.open_image(p)
                kind = type(img).__name__
            except BaseException as e:  # noqa
                kind = f"EXC {type(e).__name__}"
            if kind == "CompactDiskAudioImage":
                chk.violation({"case": case, "negative": tag, "seed": seed}, f"{tag}: text was treated as a cue sheet")
            else:
                chk.agree()
    finally:
        shutil.rmtree(work, ignore_errors=True)


def run(chk: Check):
    thorough = chk.tier == "thorough"
    chk.rule = ("TLC enumerates canonical sheets (1..n tracks, TITLE/pregap/extra INDEX variants) x one cosmetic insertion (blank line at "
                "every position; REM/PERFORMER/FLAGS/PREGAP/CATALOG before FILE and at every position inside a track); each is rendered "
                "in 5 keyword-case/spacing styles and parsed by the real parser; long sheets: the 99-track sheet bare / with 200 remarks, and "
                "2500 copies of a 64-character remark at every allowed position of a short sheet (TLC evaluates MeaningUnchanged on them "
                "with a deep Java stack); non-trivial = decorated or non-canonical style")
    res = chk.run_model(model(3 if thorough else 2, TIMES_Q[:4] if not thorough else TIMES_Q, {2352, 2355}, others=OTHERS),
                        label="design: MeaningUnchanged over all sheets x insertions", timeout_s=3000)
    resd = chk.run_model(model(2, TIMES_Q[:3], {2352}, with_data=True, others=OTHERS), label="design: data-track sheets", timeout_s=3000)
    chk.exhaustive = True
    cases = [c for c in res.cases if c["binlen"] % 2352 == 0] + resd.cases
    stride = 1 if thorough else max(1, len(cases) // 3000)
    for i, c in enumerate(cases[chk.seed % stride::stride]):
        for st in (range(len(cue.STYLES)) if thorough or i % 5 == 0 else (i % len(cue.STYLES),)):
            check_meaning(chk, c, st, chk.seed + i)
    cd = [c for c in res.cases if c["ins"]["pos"] != 0]
    step = max(1, len(cd) // (400 if thorough else 60))
    for i, c in enumerate(cd[::step]):
        check_image(chk, c, 1 + i % 4, chk.seed + i)
    for i, c in enumerate([c for c in res.cases if c["ins"]["pos"] == 0][:: (5 if thorough else 40)]):
        check_not_cue(chk, c, chk.seed + i)
    # long sheets (hundreds / thousands of lines): meaning and image unchanged
    dense, bulk = long_cases(chk, thorough)
    pick = dense + bulk[:: (1 if thorough else max(1, len(bulk) // 8))]
    for i, c in enumerate(pick):
        check_meaning(chk, c, i % len(cue.STYLES), chk.seed + i)
        check_image(chk, c, i % len(cue.STYLES), chk.seed + i)
    chk.extra["long_sheets"] = {"dense_99_tracks": len(dense), "bulk_2500_remarks": len(bulk), "replayed": len(pick)}
    c = cd[len(cd) // 2]
    chk.sample({"decorated_text": cue.render(c["lines"], 2, 1), "meaning": c["meaning"]})
    chk.assumptions.append("keyword case and blanks are rendered by the harness (5 styles); the specification treats the line classifier as given")


def replay(chk: Check, path: str):
    rec = json.load(open(path))["case"]
    if rec.get("negative"):
        check_not_cue(chk, rec["case"], rec["seed"])
    elif rec.get("image"):
        check_image(chk, rec["case"], rec["style"], rec["seed"])
    else:
        check_meaning(chk, rec["case"], rec["style"], rec["seed"])
    chk.run_model(model(1, TIMES_Q[:2], {2352}, emit=False), label="design (replay context)")
