"""C18 - name, note and tuning codecs round-trip over their whole domains.  Spec: spec/Codecs.tla."""
from __future__ import annotations

import json
import random
from fractions import Fraction

from .. import tlc
from ..core import Check
from .. import repo  # noqa: F401


def run(chk: Check):
    chk.rule = ("all 256 byte values of each codec (TLC evaluates the round-trip properties as ASSUMEs and prints the tables; every table "
                "entry is compared with the real function), the 12 x 10 note texts, and AKAI strings up to length 12 (sampled); "
                "distinct = (codec, input)")
    res = chk.run_tlc("Codecs", tlc.cfg_text(), workers=1, label="design: codec properties over all bytes (ASSUMEs) + tables")
    if len(res.cases) != 1:
        raise tlc.TlcError("tables not printed")
    T = res.cases[0]
    from smpl_extract.akai.akai_string import char_akai_to_ascii, char_ascii_to_akai
    from smpl_extract.akai.data_types import InvalidCharacter, build_akai_tune_cents, parse_akai_tune_cents
    from smpl_extract.midi import MidiNote

    def viol(what, case):
        chk.violation(case, what)

    for b in range(256):
        # AKAI -> ASCII
        chk.evaluated(("akai", b))
        want = T["akai"][b]
        try:
            got = ord(char_akai_to_ascii(bytes([b])))
        except InvalidCharacter:
            got = -1
        except Exception as e:
            got = f"{type(e).__name__}"
        if got != want:
            viol(f"AKAI byte {b}: decodes to {got}, specification {want}", {"codec": "akai", "byte": b})
        else:
            if want >= 0:
                try:
                    back = char_ascii_to_akai(chr(want))
                except Exception as e:  # noqa - a valid character that cannot be encoded back is the observation
                    back = f"{type(e).__name__}".encode()
                if back != bytes([b]):
                    viol(f"AKAI byte {b} -> {chr(want)!r} -> {list(back)}", {"codec": "akai", "byte": b})
                    continue
            chk.agree()
        # ASCII -> AKAI
        chk.evaluated(("ascii", b))
        want = T["ascii"][b]
        try:
            got = char_ascii_to_akai(bytes([b]))[0]
        except InvalidCharacter:
            got = -1
        except Exception as e:
            got = f"{type(e).__name__}"
        if got != want:
            viol(f"ASCII code {b}: encodes to {got}, specification {want}", {"codec": "ascii", "byte": b})
        else:
            chk.agree()
        # notes
        chk.evaluated(("note", b))
        n = T["notes"][b]
        for name, frm, to in (("akai", MidiNote.from_akai_byte, MidiNote.to_akai_byte), ("midi", MidiNote.from_midi_byte, MidiNote.to_midi_byte)):
            note = frm(b)
            ok = (str(note.scale_degree), bool(note.is_sharp), note.octave) == (n["deg"], n["sharp"], n["oct"]) and to(note) == b == n["back"]
            if ok and n["parses"]:
                ok = MidiNote.from_string(note.to_string()) == note and note.to_string() == f"{n['deg']}{'#' if n['sharp'] else ''}{n['oct']}"
            if not ok:
                viol(f"note byte {b} ({name}): {note!r} -> {to(note)}; specification {n}", {"codec": "note", "byte": b})
                break
        else:
            chk.agree()
        # tuning
        chk.evaluated(("cents", b))
        c = T["cents"][b]
        x = c["x"]
        got = parse_akai_tune_cents(x)
        exact = Fraction(c["num"], c["den"])
        back = build_akai_tune_cents(got)
        if abs(Fraction(got) - exact) > Fraction(1, 10 ** 9) or back != x or c["back"] != x:
            viol(f"tuning byte {x}: cents {got} (exact {exact}), back {back}", {"codec": "cents", "byte": b})
        else:
            chk.agree()
    # AKAI strings up to length 12 (sampled): decode(encode(s)) = s, padded field round trip
    from smpl_extract.akai.akai_string import AkaiPaddedString
    rng = random.Random(chk.seed)
    alphabet = [chr(a) for a in T["akai"] if a >= 0]
    ps = AkaiPaddedString(12)
    for i in range(4000 if chk.tier == "thorough" else 600):
        s = "".join(rng.choice(alphabet) for _ in range(rng.randint(0, 12)))
        chk.evaluated(("str", s))
        try:
            enc = char_ascii_to_akai(s)
            dec = char_akai_to_ascii(enc)
            field = ps.parse(ps.build(s))
        except Exception as e:  # noqa
            dec = field = f"<{type(e).__name__}>"
        if dec != s or field != s.rstrip(" "):
            viol(f"AKAI string {s!r}: decode(encode) = {dec!r}, padded field = {field!r}", {"codec": "str", "s": s})
        else:
            chk.agree()
    # histories: the codecs have no memory (CodecCalls.tla): every sequence of MaxCalls calls over the pools, replayed in this interpreter
    pool_dec = [[], [28, 24, 11, 28, 15], [18, 19, 18, 11, 30, 10, 2], [28, 24, 41], [255, 11], [11, 200, 12], [0], [40, 40]]
    pool_enc = [[], [75, 73, 67, 75], [72, 72, 32, 50], [75, 73, 97], [33, 65], [65, 0, 66], [48], [46, 45]]
    if chk.tier != "thorough":
        pool_dec, pool_enc = pool_dec[:6], pool_enc[:6]
    prep = tlc.prepare("CodecCalls", dict(PoolDec=tlc.SetOf(pool_dec), PoolEnc=tlc.SetOf(pool_enc), MaxCalls=3), init="CallsInit", next="CallsNext",
                       invariants=["Memoryless", "RoundTrips", "Emit"])
    hres = chk.run_model(prep, label="codec call histories (3 calls over the pools)")
    histories = [c for c in hres.cases if isinstance(c, list)]
    want_n = (len(pool_dec) + len(pool_enc)) ** 3
    if len(histories) != want_n:
        raise tlc.TlcError(f"{len(histories)} histories printed, {want_n} expected")

    def real_call(d, inp):
        try:
            r = (char_akai_to_ascii if d == "dec" else char_ascii_to_akai)(bytes(inp))
            return {"ok": True, "out": list(r.encode("latin-1") if isinstance(r, str) else r)}
        except InvalidCharacter:
            return {"ok": False, "out": []}
        except Exception as e:  # noqa - any other exception is the observation
            return {"ok": False, "out": [type(e).__name__]}

    for hist in histories:
        chk.evaluated(("history", json.dumps([[c["dir"], c["inp"]] for c in hist])))
        bad = None
        for k, c in enumerate(hist):
            got = real_call(c["dir"], c["inp"])
            want = {"ok": c["res"]["ok"], "out": list(c["res"]["out"])}
            if got != want and bad is None:
                bad = (k, c, got, want)
        if bad:
            k, c, got, want = bad
            viol(f"call {k + 1} of the history {[(c2['dir'], c2['inp']) for c2 in hist]}: {c['dir']}({c['inp']}) gave {got}, specification {want}",
                 {"codec": "history", "calls": [[c2["dir"], c2["inp"]] for c2 in hist]})
        else:
            chk.agree()
    chk.extra["call_histories_replayed"] = len(histories)
    chk.exhaustive = True
    chk.sample({"byte": 60, "note": T["notes"][60], "cents": T["cents"][60], "akai": T["akai"][11]})
    chk.assumptions.append("cents compared with the exact rational within 1e-9; round trips compared exactly")


def replay(chk: Check, path: str):
    run(chk)
