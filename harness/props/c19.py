"""C19 - de-emphasis filters give the same output however the signal is split into blocks.  Spec: spec/Filters.tla."""
from __future__ import annotations

import hashlib
import json
import os
import random
from typing import Any, Dict, List

import numpy as np

from .. import tlc
from ..core import Check, REPO
from .. import repo  # noqa: F401

INVS = ["SplitInvariant", "CountPreserved", "Saturates", "FlushResets"]
CS_H = [1, -2, 5, -11, 25, -65, 176, -460, 9981, 32767, 9981, -460, 176, -65, 25, -11, 5, -2, 1]
CS_K, CS_M0 = 52067, 7


def F(kind, h=(), m0=0, k=1, b=(), a=()):
    return dict(kind=kind, h=list(h), m0=m0, k=k, b=list(b), a=list(a))


def filter_set(thorough: bool) -> List[dict]:
    fs = [F("fir", [1], 0), F("fir", [2, 1], 0), F("fir", [2, 1], 1), F("fir", [3, -1, 2], 0), F("fir", [3, -1, 2], 1),
          F("fir", [3, -1, 2], 2), F("csfir", [1, -2, 5], 1, 4), F("csfir", [7, 3], 0, 2),
          F("iir", b=[1, 2], a=[1, -1]), F("iir", b=[2, 1, 1], a=[1, 1, -1])]
    if thorough:
        fs += [F("fir", [1, 2, 3, 4], m) for m in range(4)] + [F("csfir", [1, -2, 5, 3], 2, 3), F("iir", b=[3], a=[1, 2])]
    return fs


def signals(thorough: bool, rng) -> List[List[int]]:
    base = [[7], [5, -3], [1, 2, 3, 4], [2, -1, 4, 1, 3, -2], [6, 0, 0, 0, 3, 0]]
    if thorough:
        base += [[rng.randint(-9, 9) for _ in range(n)] for n in (7, 8, 9, 10)]
    return base


def model(fs, sigs, d13: bool, emit: bool, invariants=True):
    return tlc.prepare("Filters", dict(FilterSet=tlc.SetOf(fs), Signals=tlc.SetOf(sigs), FirHistoryFromFullWindow=d13, EmitCases=emit),
                       invariants=(INVS if invariants else []) + ["Emit"])


def make_real(f: dict):
    from smpl_extract.filters.fir import ChickSysCustomFirFilter, FirFilter
    from smpl_extract.filters.iir import IirFilter
    if f["kind"] == "fir":
        return FirFilter(np.asarray(f["h"], dtype=np.float64), f["m0"]), np.float64
    if f["kind"] == "csfir":
        return ChickSysCustomFirFilter(np.asarray(f["h"], dtype=np.int16), f["m0"], f["k"]), np.int16
    return IirFilter(np.asarray(f["b"], dtype=np.float64), np.asarray(f["a"], dtype=np.float64)), np.float64


def run_schedule(flt, sig: np.ndarray, blocks: List[int]) -> List[float]:
    """The blocks a filter yields are read twice: at once, and again after the last call (a caller that collects the
    blocks and joins them at the end).  Both readings are the filter's output; if they differ the run is marked with a
    NaN so that it can equal no reference."""
    out, held, pos = [], [], 0
    for n in blocks:
        y = flt.process(sig[pos:pos + n])
        held.append(y)
        out += list(y)
        pos += n
    y = flt.get_remaining()
    held.append(y)
    out += list(y)
    later = [v for part in held for v in list(part)]
    if later != out and not (len(later) == len(out) and all(a == b or (a != a and b != b) for a, b in zip(later, out))):
        return later + [float("nan")]
    return out


def d13_applies(f: dict) -> bool:
    return f["kind"] in ("fir", "csfir")


def check_case(chk: Check, case: dict, label: str, make=None):
    """make: builds the filter under test (default: the generic class with the case's coefficients); the shipped preset
    class is passed here so that ITS methods are the ones compared with the specification's output"""
    f, sig, blocks = case["f"], case["sig"], case["blocks"]
    flt, dt = make() if make else make_real(f)
    key = (label, json.dumps(f), tuple(sig), tuple(blocks))
    chk.evaluated(key, nontrivial=len(blocks) > 1)
    payload = {"f": f, "sig": sig, "blocks": blocks}
    try:
        got = [int(v) if float(v).is_integer() else float(v) for v in run_schedule(flt, np.asarray(sig, dtype=dt), blocks)]
    except Exception as e:
        chk.violation(payload, f"filter raised {type(e).__name__}: {e}")
        return
    if got == case["ref"]:
        chk.agree()
        return
    what = (f"{f['kind']} filter h={f['h'] or f['b']} delay={f['m0']}: signal {sig} fed as blocks {blocks} then flushed gives {got}, "
            f"one block gives {case['ref']} ({len(got)} vs {len(sig)} samples)")
    if d13_applies(f) and got == case["out"]:
        chk.violation(payload, what, finding="D13")      # exactly the modelled deviation (fir.pyx:38)
    else:
        chk.violation(payload, what)


def check_reset(chk: Check, f: dict, sig: List[int]):
    flt, dt = make_real(f)
    fresh, _ = make_real(f)
    x = np.asarray(sig, dtype=dt)
    chk.evaluated(("reset", json.dumps(f), tuple(sig)))
    flt.process(x[: max(1, len(sig) // 2)])
    flt.reset_state()
    a = run_schedule(flt, x, [len(sig)])
    b = run_schedule(fresh, x, [len(sig)])
    if list(a) != list(b):
        chk.violation({"f": f, "sig": sig, "reset": True}, f"after reset_state the filter differs from a new one: {a} vs {b}")
    else:
        chk.agree()


def presets():
    from smpl_extract.filters import common as c
    return [("CdXtractRolandDeemphFilter", c.CdXtractRolandDeemphFilter, 8, True),
            ("ChickSysStandardDeemphFilter", c.ChickSysStandardDeemphFilter, 0, False),
            ("ChickSysDarkerDeemphFilter", c.ChickSysDarkerDeemphFilter, 0, False),
            ("ChickSysSpecialDeemphFilter", c.ChickSysSpecialDeemphFilter, 0, False),
            ("ChickSysRolandDeemphFilter", c.ChickSysRolandDeemphFilter, 19, True)]


def check_preset_relation(chk: Check, name, cls, ntaps, is_fir, sig: np.ndarray, blocks: List[int], tag: str):
    """the property's own relation on a float-coefficient preset: block-fed + flush == one block + flush, bit for bit"""
    chk.evaluated(("preset", name, tag, tuple(blocks), hashlib.sha1(sig.tobytes()).hexdigest()[:8]), nontrivial=len(blocks) > 1)
    one = run_schedule(cls(), sig, [len(sig)])
    many = run_schedule(cls(), sig, blocks)
    payload = {"preset": name, "blocks": blocks, "sig": sig.tolist()[:64], "tag": tag}
    problems = []
    if len(one) != len(sig):
        problems.append(f"one block + flush returns {len(one)} samples for {len(sig)}")
    if len(many) != len(sig) or list(many) != list(one):
        problems.append(f"blocks {blocks[:12]} + flush differs from one block ({len(many)} vs {len(one)} samples)")
    if any((v > 32767 or v < -32768) for v in list(one) + list(many)):
        problems.append("output outside the int16 range")
    if not problems:
        chk.agree()
        return
    # D13 predicate: the FIR history is taken from the new block only -> fails iff some block (or the whole signal) is shorter than N-1
    d13 = is_fir and (min(blocks) < ntaps - 1 or len(sig) < ntaps - 1)
    chk.violation(payload, f"{name}: " + "; ".join(problems), finding="D13" if d13 else None)


def check_preset_reuse(chk: Check, name, cls, sig: np.ndarray):
    """resetting a filter (explicitly, or by flushing it) makes it behave like a new one - on presets, one block per run so
    that the FIR history finding D13 does not interfere"""
    chk.evaluated(("preset-reuse", name, hashlib.sha1(sig.tobytes()).hexdigest()[:8]), nontrivial=True)
    fresh = run_schedule(cls(), sig, [len(sig)])
    a = cls()
    a.process(sig[: len(sig) // 2])
    a.reset_state()
    after_reset = run_schedule(a, sig, [len(sig)])
    b = cls()
    run_schedule(b, sig[::-1].copy(), [len(sig)])              # a complete earlier use, flushed
    after_flush = run_schedule(b, sig, [len(sig)])
    problems = []
    if list(after_reset) != list(fresh):
        problems.append(f"after reset_state: {len(after_reset)} samples, differs from a new filter ({len(fresh)} samples)")
    if list(after_flush) != list(fresh):
        problems.append(f"reused after a flushed run: {len(after_flush)} samples, differs from a new filter ({len(fresh)} samples)")
    if problems:
        chk.violation({"preset": name, "reuse": True, "sig": sig.tolist()}, f"{name}: " + "; ".join(problems))
    else:
        chk.agree()


def check_instances_independent(chk: Check, tag: str, make_a, make_b, sig_a: np.ndarray, sig_b: np.ndarray, blocks: List[int]):
    """a stereo export drives one filter per channel, block by block in turns: what one instance returns must not depend
    on another instance being created, fed, reset or flushed in between (same block schedule in both runs, so the result
    is compared with itself, not with a model)"""
    chk.evaluated(("instances", tag, tuple(blocks), hashlib.sha1(sig_a.tobytes() + sig_b.tobytes()).hexdigest()[:8]), nontrivial=True)
    solo_a = run_schedule(make_a(), sig_a, blocks)
    solo_b = run_schedule(make_b(), sig_b, blocks)
    a, b = make_a(), make_b()
    out_a, out_b, pos = [], [], 0
    for k, n in enumerate(blocks):
        out_a += list(a.process(sig_a[pos:pos + n]))
        if k == 1:
            make_b().reset_state()                      # an unrelated instance comes and goes
        out_b += list(b.process(sig_b[pos:pos + n]))
        pos += n
    out_a += list(a.get_remaining())
    out_b += list(b.get_remaining())
    problems = []
    if out_a != solo_a:
        problems.append(f"first instance: interleaved output differs from its solo run ({len(out_a)} vs {len(solo_a)} samples)")
    if out_b != solo_b:
        problems.append(f"second instance: interleaved output differs from its solo run ({len(out_b)} vs {len(solo_b)} samples)")
    if problems:
        chk.violation({"instances": tag, "blocks": blocks}, f"{tag}, blocks {blocks[:8]}: " + "; ".join(problems))
    else:
        chk.agree()


def run(chk: Check):
    thorough = chk.tier == "thorough"
    rng = random.Random(chk.seed)
    chk.rule = ("TLC explores every ordered split into non-empty blocks of short signals for integer FIR filters (1-4 taps, every delay offset), "
                "ChickenSys-style integer FIR (per-term rounding, clamp) and integer IIR filters, checks SplitInvariant / CountPreserved / "
                "Saturates / FlushResets on the intended history rule and emits both predictions; every schedule is run on the real filter "
                "objects (exact comparison); the real 19-tap ChickenSys FIR is model-checked exactly on int16 signals incl. extremes; the "
                "float presets get TLC's schedules and the property's own relation; non-trivial = more than one block")
    fs, sigs = filter_set(thorough), signals(thorough, rng)
    chk.run_model(model(fs, sigs, True, False), label="design: SplitInvariant etc. with the intended history rule", timeout_s=3000)
    res = chk.run_model(model(fs, sigs, False, True, invariants=False), label="as-implemented history rule: predictions for replay", timeout_s=3000)
    chk.exhaustive = True
    for c in res.cases:
        check_case(chk, c, "small")
    for f in fs:
        check_reset(chk, f, sigs[-1])
    # the real ChickenSys FIR preset, exactly
    ext = [[32767] * 24, [-32768] * 22, [32767 if i % 2 else -32768 for i in range(26)],
           [0] * 6 + [32767] * 8 + [0] * 8 + [-32768] * 6, [-32768, 32767, 32767, 32767, -32768] * 5,      # plateau onsets / ends, sign runs: overshoot
           [(32767 if h > 0 else -32768) for h in CS_H] + [0] * 4,                                        # tap-signed pattern: the largest possible sum
           [rng.randint(-32768, 32767) for _ in range(30)], [rng.randint(-32768, 32767) for _ in range(21)]]
    cs = F("csfir", CS_H, CS_M0, CS_K)
    n_sim = 40 if thorough else 12
    r2 = chk.run_model(model([cs], ext, False, True, invariants=False), simulate=f"num={n_sim}", depth=40, seed=chk.seed, workers=4,
                       label="ChickenSys 19-tap FIR on int16 signals incl. extremes (simulated schedules)", timeout_s=3000)
    from smpl_extract.filters import common
    for c in r2.cases:
        # same constants as the shipped preset?
        p = common.ChickSysRolandDeemphFilter()
        if list(p.h) != CS_H or p.k_gain != CS_K or p.m0 != CS_M0:
            chk.drift("preset_constants_differ_from_spec")
        check_case(chk, c, "cs19")
        check_case(chk, c, "cs19-preset", make=lambda: (common.ChickSysRolandDeemphFilter(), np.int16))      # the shipped class itself
    # schedules for the float presets: compositions of lengths 24..60 drawn by TLC (identity IIR as carrier)
    carrier = [F("iir", b=[1], a=[1])]
    lens = [24, 40, 60] if thorough else [24, 40]
    r3 = chk.run_model(model(carrier, [list(range(1, n + 1)) for n in lens], True, True), simulate=f"num={30 if thorough else 8}", depth=70,
                       seed=chk.seed + 1, workers=4, label="schedules (ordered splits) for the float presets", timeout_s=3000)
    scheds = [c["blocks"] for c in r3.cases] + [[n] for n in lens] + [[8] * 5, [18] * 3, [20, 20], [7, 7, 7, 7], [19, 5, 19]]
    for name, cls, ntaps, is_fir in presets():
        for i, bl in enumerate(scheds):
            n = sum(bl)
            for tag, sig in (("random", np.asarray([rng.randint(-32768, 32767) for _ in range(n)], dtype=np.int16)),
                             ("max", np.full(n, 32767, dtype=np.int16)), ("min", np.full(n, -32768, dtype=np.int16)),
                             ("alt", np.asarray([32767 if j % 2 else -32768 for j in range(n)], dtype=np.int16)),
                             ("impulse", np.asarray([12000] + [0] * (n - 1), dtype=np.int16)),
                             ("burst-silence", np.asarray([rng.randint(-20000, 20000) if j < n // 3 else 0 for j in range(n)], dtype=np.int16)),
                             ("silence-burst", np.asarray([0 if j < n // 2 else rng.randint(-20000, 20000) for j in range(n)], dtype=np.int16))):
                if tag in ("max", "min", "alt") and i % 4:
                    continue
                check_preset_relation(chk, name, cls, ntaps, is_fir, sig, bl, tag)
    # the int16 limits as carried state: a block boundary right behind a sample of exactly -32768 / 32767 (every two-block
    # split and single-sample blocks of signals in which every third sample sits on a limit)
    for name, cls, ntaps, is_fir in presets():
        for rep in range(3 if thorough else 1):
            n = 36
            sig = np.asarray([(-32768 if j % 3 == 0 else 32767 if j % 7 == 0 else rng.randint(-3000, 3000)) for j in range(n)], dtype=np.int16)
            for k in range(1, n):
                if is_fir and (k < ntaps - 1 or n - k < ntaps - 1) and not thorough:
                    continue                      # D13 territory (a block shorter than the FIR history) adds nothing here
                check_preset_relation(chk, name, cls, ntaps, is_fir, sig, [k, n - k], f"limits split {k}")
            if not is_fir:
                check_preset_relation(chk, name, cls, ntaps, is_fir, sig, [1] * n, "limits single-sample blocks")
    # long blocks: one block just past a power of two (an implementation that works through a block in chunks meets a short
    # last chunk), against the same signal cut in two and in 1000-sample blocks
    for name, cls, ntaps, is_fir in presets():
        for base in ((1024, 4096, 65536) if not thorough else (512, 1024, 2048, 4096, 8192, 16384, 32768, 65536)):
            for r in ((1, 7, 17, 18, 100) if not thorough else (0, 1, 2, 3, 7, 8, 16, 17, 18, 19, 20, 100, 1000)):
                n = base + r
                sig = np.asarray([rng.randint(-30000, 30000) for _ in range(n)], dtype=np.int16)
                check_preset_relation(chk, name, cls, ntaps, is_fir, sig, [n // 2, n - n // 2], f"long {base}+{r}")
                check_preset_relation(chk, name, cls, ntaps, is_fir, sig, [1000] * (n // 1000) + ([n % 1000] if n % 1000 else []), f"long {base}+{r} /1000")
    # two live instances fed in turns (one filter per channel), same class and mixed classes
    plist = presets()
    for i, (name, cls, ntaps, is_fir) in enumerate(plist):
        other = plist[(i + 1) % len(plist)]
        for bl in ([50, 50, 50], [100, 30, 70, 25], [400] * 3):
            n = sum(bl)
            sa = np.asarray([rng.randint(-30000, 30000) for _ in range(n)], dtype=np.int16)
            sb = np.asarray([rng.randint(-30000, 30000) for _ in range(n)], dtype=np.int16)
            check_instances_independent(chk, f"{name} x {name}", cls, cls, sa, sb, bl)
            check_instances_independent(chk, f"{name} x {other[0]}", cls, other[1], sa, sb, bl)
    for f in filter_set(thorough)[: (None if thorough else 6)]:
        for bl in ([20, 20, 20], [7, 30, 23]):
            n = sum(bl)
            dt = make_real(f)[1]
            sa = np.asarray([rng.randint(-9, 9) for _ in range(n)], dtype=dt)
            sb = np.asarray([rng.randint(-9, 9) for _ in range(n)], dtype=dt)
            check_instances_independent(chk, f"generic {f['kind']} x itself", (lambda f=f: make_real(f)[0]), (lambda f=f: make_real(f)[0]), sa, sb, bl)
    for name, cls, ntaps, is_fir in presets():
        for n in (40, 64, 196):
            check_preset_reuse(chk, name, cls, np.asarray([rng.randint(-20000, 20000) for _ in range(n)], dtype=np.int16))
    so = {}
    for fn in sorted(os.listdir(os.path.join(REPO, "smpl_extract", "filters"))):
        if fn.endswith(".so") or fn.endswith(".pyx"):
            p = os.path.join(REPO, "smpl_extract", "filters", fn)
            so[fn] = {"sha1": hashlib.sha1(open(p, "rb").read()).hexdigest(), "mtime": int(os.path.getmtime(p))}
    chk.extra["filter_binaries"] = so
    stale = [k for k in so if k.endswith(".pyx") and any(s.startswith(k[:-4] + ".") and s.endswith(".so") and so[s]["mtime"] < so[k]["mtime"] for s in so)]
    if stale:
        chk.extra["note"] = f".pyx newer than its compiled extension (cannot be rebuilt here: no Cython): {stale}"
    chk.sample({"f": res.cases[0]["f"], "sig": res.cases[0]["sig"], "blocks": res.cases[0]["blocks"], "ref": res.cases[0]["ref"]})
    chk.assumptions += ["the compiled extensions (.so) present in the working tree are what is exercised; .pyx sources cannot be recompiled in this sandbox",
                        "float-coefficient presets: TLC supplies schedules, the comparison is the property's own relation (bit for bit), not a model value"]


def replay(chk: Check, path: str):
    rec = json.load(open(path))["case"]
    if rec.get("reuse"):
        for name, cls, ntaps, is_fir in presets():
            if name == rec["preset"]:
                check_preset_reuse(chk, name, cls, np.asarray(rec["sig"], dtype=np.int16))
        chk.run_model(model([F("iir", b=[1], a=[1])], [[1, 2]], True, False), label="design (replay context)")
        return
    if "preset" in rec:
        for name, cls, ntaps, is_fir in presets():
            if name == rec["preset"]:
                check_preset_relation(chk, name, cls, ntaps, is_fir, np.asarray(rec["sig"], dtype=np.int16), rec["blocks"], rec["tag"])
        chk.run_model(model([F("iir", b=[1], a=[1])], [[1, 2]], True, False), label="design (replay context)")
        return
    if rec.get("reset"):
        check_reset(chk, rec["f"], rec["sig"])
        chk.run_model(model([rec["f"]], [rec["sig"]], True, False, invariants=False), label="replay context")
        return
    res = chk.run_model(model([rec["f"]], [rec["sig"]], False, True, invariants=False), label="replay")
    for c in res.cases:
        if c["blocks"] == rec["blocks"]:
            check_case(chk, c, "replay")
