"""C20 - `ls` reports the header values stored in the image for samples and programs.
Specification: spec/HeaderViews.tla (view rules) + spec/Headers.tla (layouts driving the writers); binding by trace validation with
spec/HeadersTrace.tla: one line per item = {values stored by the independent writer, values extracted from what the real ls printed}."""
from __future__ import annotations

import json
import os
import random
import shutil
import struct
from typing import Any, Dict, List

from .. import tlc, traces, naming, cue, listing
from ..core import Check
from .. import repo
from ..readers.lsparse import parse_tree, as_list
from ..writers import akai as aw, roland as rw
from ..writers.fields import pack, LAYOUTS, akai_bytes

AKAI_CHARS = "0123456789 ABCDEFGHIJKLMNOPQRSTUVWXYZ#+-."


def akai_name(rng, n=12) -> str:
    s = "".join(rng.choice(AKAI_CHARS) for _ in range(rng.randint(1, n))).strip()
    return s or "X"


def S(v) -> str:
    return str(v)


# ---- AKAI samples ---------------------------------------------------------------------------------
def akai_sample_items(rng, n: int):
    items = []
    for i in range(n):
        loops = [dict(loop_start=rng.choice([0, 1, rng.randrange(2 ** 31), rng.randrange(70000)]), loop_length_fine=rng.randrange(65536),
                      loop_length_coarse=rng.randrange(2 ** 20), loop_duration=rng.choice([0, 0, 1, rng.randrange(1, 9999), 9999, 65535]))
                 for _ in range(8)]
        st = dict(file_name=f"F{i}" + akai_name(rng, 6), sample_name=akai_name(rng), id=rng.choice([1, 3]), note_pitch=rng.randrange(21, 140),
                  loop_type=rng.randrange(0, 5), pitch_offset_cents=rng.randrange(-128, 128), pitch_offset_semi=rng.randrange(-128, 128),
                  samples_cnt=rng.randrange(2 ** 31), play_start=rng.randrange(2 ** 30), play_end=rng.randrange(2 ** 30, 2 ** 31),
                  sampling_rate=rng.choice([0, 0, 1, 22050, 44100, 65535, rng.randrange(65536)]), loops=loops)
        # names that fill their 12-character field: ending in the digit 0 (AKAI code 0x00), in a blank-like run, in a dot
        if i < 4:
            st["sample_name"] = ["GRANDPIANO10", "SYNTHBASS100", "STRINGS 2000", "A.B.C.D.E.F."][i]
        if i in (4, 5):
            st["file_name"] = ["F4-KICK 0000", "F5 000000000"][i - 4]
        items.append(st)
    return items


def akai_sample_image(items, seed) -> bytes:
    names = [it["file_name"] for it in items]
    case = naming.akai_files_case(names, [10] * len(names))
    for f, it in zip(case["parts"][0]["vols"][0]["files"], items):
        f["ftype"] = 0x73 if it["id"] == 1 else 0xF3
        lt = b"".join(pack("akai_loop", lp) for lp in it["loops"])
        f["hdr"] = {k: it[k] for k in ("note_pitch", "sample_name", "loop_type", "pitch_offset_cents", "pitch_offset_semi", "samples_cnt",
                                       "play_start", "play_end", "sampling_rate")}
        f["hdr"]["loops"] = lt
        f["hdr"]["id"] = it["id"]
    return aw.build_image(case, seed)


def cents255(txt: str) -> str:
    v = float(txt) * 255
    r = round(v)
    return str(r) if abs(v - r) < 1e-6 else f"inexact({txt})"


def leaf(v) -> str:
    """a printed scalar as the trace carries it: text.  A printed sub-tree where a scalar belongs becomes a text that
    equals no stored value, so that TLC compares like with like and the line is rejected (not an evaluation error)."""
    return v if isinstance(v, str) else "MALFORMED " + json.dumps(v, sort_keys=True)[:120]


def leaves(d: Dict[str, Any]) -> Dict[str, Any]:
    """apply leaf() to every scalar position of a printed record (lists and records keep their shape)"""
    out = {}
    for k, v in d.items():
        if isinstance(v, list):
            out[k] = [leaves(x) if isinstance(x, dict) else leaf(x) for x in v]
        elif isinstance(v, dict) and k in ("ints",):
            out[k] = leaves(v)
        else:
            out[k] = leaf(v)
    return out


def rec(x) -> Dict[str, Any]:
    return x if isinstance(x, dict) else {}


def printed_akai_sample(tree) -> Dict[str, Any]:
    p = {k: tree.get(k, "MISSING") for k in ("file_name", "sample_name", "sample_type", "sample_rate", "samples_cnt", "start_sample",
                                             "end_sample", "pitch_semi", "note_pitch", "loop_type")}
    p["pitch_cents_x255"] = cents255(tree["pitch_cents"]) if "pitch_cents" in tree else "MISSING"
    p["loops"] = [{"loop_end": rec(lp).get("loop_end", "MISSING"), "loop_duration": rec(lp).get("loop_duration", "MISSING")}
                  for lp in as_list(tree.get("loop_entries"))]
    return leaves(p)


# ---- AKAI programs --------------------------------------------------------------------------------
PH_INT = ["program_id", "midi_program_number", "polyphony", "octave_shift", "mix_output_level", "mix_output_pan", "volume", "vel_to_volume",
          "key_to_volume", "pres_to_volume", "pan_lfo_rate", "pan_lfo_depth", "pan_lfo_delay", "key_to_pan", "lfo_rate", "lfo_depth",
          "lfo_delay", "mod_to_lfo_depth", "pres_to_lfo_depth", "vel_to_lfo_depth", "bend_to_pitch", "pres_to_pitch", "mod_to_pan",
          "pitch_law", "softped_to_volume", "softped_to_attack", "softped_to_filter", "tune_semitones", "key_to_lfo_rate",
          "key_to_lfo_depth", "key_to_lfo_delay"]
KG_INT = ["block_id", "filter_cutoff", "key_to_filter_cutoff", "velocity_to_filter_cutoff", "pressure_to_filter_cutoff",
          "env2_to_filter_cutoff", "env1_attack", "env1_decay", "env1_sustain", "env1_release", "env1_velocity_to_attack",
          "env1_velocity_to_release", "env1_off_velocity_to_release", "env1_key_to_decay_and_release", "env2_attack", "env2_decay",
          "env2_sustain", "env2_release", "env2_velocity_to_attack", "env2_velocity_to_release", "env2_off_velocity_to_release",
          "env2_key_to_decay_and_release", "velocity_to_env2_to_filter_cutoff", "env2_to_pitch", "beat_detune", "velocity_to_volume_offset"]


def kind_of(layout, name):
    for f in LAYOUTS[layout]:
        if f["name"] == name:
            return f["kind"]
    raise KeyError(name)


def rnd_field(rng, layout, name):
    return rng.randrange(-128, 128) if kind_of(layout, name) == "s8" else rng.randrange(256)


def akai_program_items(rng, n: int):
    items = []
    for i in range(n):
        sparse = i % 3 == 0            # few non-empty zones: 4-5 keygroups stay under the 300-line cap
        nk = rng.choice([3, 4, 4, 5]) if sparse else rng.choice([1, 1, 2, 2, 2, 3, 5])
        kgs = []
        for _ in range(nk):
            zones = []
            for z in range(rng.choice([4, 4, 4, 3, 2, 1])):        # stored zone count: the block is 38 + 28*n bytes long
                zones.append(dict(sample_name=(rng.choice(["", "", "", akai_name(rng)]) if sparse else rng.choice(["", akai_name(rng)])), low_velocity=S(rng.randrange(128)), high_velocity=S(rng.randrange(128)),
                                  tune_cents=rng.randrange(-128, 128), tune_semitones=S(rng.randrange(-128, 128)),
                                  loudness_offset=S(rng.randrange(-128, 128)), filter_cutoff_offset=S(rng.randrange(-128, 128)),
                                  pan_offset=S(rng.randrange(-128, 128)), loop_mode=rng.randrange(0, 6)))
            kgs.append(dict(low_key=rng.randrange(21, 128), high_key=rng.randrange(21, 128), tune_cents=rng.randrange(-128, 128),
                            tune_semitones=S(rng.randrange(-128, 128)),
                            ints={k: S(rnd_field(rng, "akai_keygroup_head" if any(f["name"] == k for f in LAYOUTS["akai_keygroup_head"]) else "akai_keygroup_tail", k)) for k in KG_INT},
                            velocity_zone_crossfade=rng.choice([0, 1, 7]), hold_attack_until_loop=rng.choice([0, 1, 200]), zones=zones,
                            aux=[rng.randrange(256) for _ in range(len(zones))], track=[rng.choice([0, 1]) for _ in range(len(zones))],
                            vss=[rng.randrange(-9999, 9999) for _ in range(len(zones))]))
        st = dict(file_name=f"P{i}" + akai_name(rng, 5), program_name=akai_name(rng),
                  ints={k: S(rnd_field(rng, "akai_program_header", k)) for k in PH_INT},
                  midi_channel=rng.choice([255, rng.randrange(16)]), aux_output_select=rng.choice([255, rng.randrange(8)]),
                  priority=rng.randrange(4), voice_reassign=rng.randrange(2), low_key=rng.randrange(21, 128), high_key=rng.randrange(21, 128),
                  keygroup_crossfade=rng.choice([0, 1, 9]), fx_output=rng.choice([0, 1]), stereo_coherence=rng.choice([0, 1, 2]),
                  lfo_desync=rng.choice([0, 1]), tune_cents=rng.randrange(-128, 128), voice_output_scale_db=rng.randrange(0, 5),
                  stereo_output_scale_db=rng.randrange(0, 4), key_temperaments=[S(rng.randrange(256)) for _ in range(12)], keygroups=kgs,
                  perm=rng.random(), layout=["standard", "standard", "gapped", "far"][i % 4])
        items.append(st)
    return items


def program_bytes(st, rng) -> bytes:
    """header + keygroups placed at arbitrary (permuted, gapped) addresses, chained through next_keygroup_address; records in
    st["blocks"] where every block (linked or stale) lives - the visiting order is the specification's business"""
    nk = len(st["keygroups"])
    slots = list(range(nk))
    random.Random(st["perm"]).shuffle(slots)
    if st.get("layout") == "standard" and int(st["perm"] * 10) % 2:      # chain starts in the first slot, the rest is permuted
        slots.remove(0)
        slots.insert(0, 0)
    if st.get("layout") == "standard":       # the usual geometry: 150-byte slots from address 150, visited in permuted order
        base = 150
        addr = [150 * (slots[i] + 1) for i in range(nk)]
    elif st.get("layout") == "far":          # a program file of several sectors: keygroup addresses up to 0xFFxx (beyond 0x7FFF: the
        base = 72 + rng.randrange(0, 40)     # address is an unsigned 16-bit byte offset)
        step = 65000 // max(nk, 1) if nk > 1 else 40000
        addr = [base + slots[i] * step + (40000 if nk == 1 else 0) for i in range(nk)]
    else:
        base = 72 + rng.randrange(0, 40)
        addr = [base + slots[i] * (150 + 7) for i in range(nk)]      # keygroup i lives at addr[i]
    buf = bytearray(max([base + nk * 157] + [a + 157 for a in addr]) + 10)
    hv = {k: int(v) for k, v in st["ints"].items()}
    hv.update(first_keygroup_address=addr[0], program_name=st["program_name"], midi_channel=st["midi_channel"],
              aux_output_select=st["aux_output_select"], priority=st["priority"], voice_reassign=st["voice_reassign"], low_key=st["low_key"],
              high_key=st["high_key"], keygroup_crossfade=st["keygroup_crossfade"], fx_output=st["fx_output"],
              stereo_coherence=st["stereo_coherence"], lfo_desync=st["lfo_desync"], tune_cents=st["tune_cents"],
              voice_output_scale_db=st["voice_output_scale_db"], stereo_output_scale_db=st["stereo_output_scale_db"],
              key_temperaments=bytes(int(x) for x in st["key_temperaments"]), number_of_keygroups=nk)
    buf[0:72] = pack("akai_program_header", hv)
    st["first_keygroup_address"], st["number_of_keygroups"], st["blocks"] = addr[0], nk, []
    stale = []
    if st.get("layout") == "standard" and nk >= 2:       # a stale (unlinked) copy of a keygroup in the slot behind the last one
        stale = [(150 * (nk + 1), dict(st["keygroups"][0], ints=dict(st["keygroups"][0]["ints"], filter_cutoff="77")))]
        buf.extend(bytes(160))
    for i, kg in enumerate(st["keygroups"] + [k for _, k in stale]):
        if i >= nk:
            addr.append(stale[i - nk][0])
        kv = {k: int(v) for k, v in kg["ints"].items()}
        nxt = (addr[i + 1] if i + 1 < nk else rng.choice([0, 5000]))
        st["blocks"].append({"addr": addr[i], "kg": dict({k: v for k, v in kg.items() if k not in ("aux", "track", "vss")}, next=nxt)})
        head = dict(kv, next_keygroup_address=nxt, low_key=kg["low_key"], high_key=kg["high_key"],
                    tune_cents=kg["tune_cents"], tune_semitones=int(kg["tune_semitones"]), velocity_zone_crossfade=kg["velocity_zone_crossfade"],
                    num_velocity_zones=len(kg["zones"]))
        b = pack("akai_keygroup_head", head)
        for z in kg["zones"]:
            b += pack("akai_velocity_zone", dict(sample_name=z["sample_name"], low_velocity=int(z["low_velocity"]), high_velocity=int(z["high_velocity"]),
                                                 tune_cents=z["tune_cents"], tune_semitones=int(z["tune_semitones"]),
                                                 loudness_offset=int(z["loudness_offset"]), filter_cutoff_offset=int(z["filter_cutoff_offset"]),
                                                 pan_offset=int(z["pan_offset"]), loop_mode=z["loop_mode"], pad2c=b"\x2c", pad01=b"\x01"))
        nz = len(kg["zones"])
        b += struct.pack("<bB", kv["beat_detune"], kg["hold_attack_until_loop"]) + bytes(kg["track"]) + bytes(kg["aux"]) + \
            struct.pack(f"<{nz}h", *kg["vss"]) + struct.pack("<bB", kv["velocity_to_volume_offset"], 0)
        assert len(b) == 38 + 28 * nz
        buf[addr[i]:addr[i] + len(b)] = b
    return bytes(buf)


def akai_program_image(items, rng, seed) -> bytes:
    names = [it["file_name"] for it in items]
    case = naming.akai_files_case(names, [10] * len(names))
    for f, it in zip(case["parts"][0]["vols"][0]["files"], items):
        content = program_bytes(it, rng)
        f["ftype"] = rng.choice([0x70, 0xF0])
        f["content_head"] = content
        f["size"] = len(content)
    # lay the files out again: a program may need several sectors
    sec, sat = 5, [[4, 49152]]
    for f in case["parts"][0]["vols"][0]["files"]:
        n = max(1, -(-f["size"] // 8192))
        f["chain"] = list(range(sec, sec + n))
        sat += [[c, c + 1] for c in f["chain"][:-1]] + [[f["chain"][-1], 49152]]
        sec += n
    case["parts"][0]["sat"] = sat
    case["nsect"] = sec + 1
    return aw.build_image(case, seed)


def printed_akai_program(tree) -> Dict[str, Any]:
    g = lambda k: tree.get(k, "MISSING")
    p = {"ints": {k: g(k) for k in PH_INT}}
    for k in ("midi_channel", "aux_output_select", "priority", "voice_reassign", "low_key", "high_key", "keygroup_crossfade", "fx_output",
              "stereo_coherence", "lfo_desync", "voice_output_scale_db", "stereo_output_scale_db", "number_of_keygroups"):
        p[k] = g(k)
    p["tune_cents_x255"] = cents255(tree["tune_cents"]) if "tune_cents" in tree else "MISSING"
    p["key_temperaments"] = as_list(tree.get("key_temperaments"))
    kgs = []
    for kg in as_list(tree.get("keygroups")):
        kg = rec(kg)
        q = lambda k: kg.get(k, "MISSING")
        kgs.append({"low_key": q("low_key"), "high_key": q("high_key"), "tune_cents_x255": cents255(kg["tune_cents"]) if "tune_cents" in kg else "MISSING",
                    "tune_semitones": q("tune_semitones"), "ints": {k: q(k) for k in KG_INT},
                    "velocity_zone_crossfade": q("velocity_zone_crossfade"), "hold_attack_until_loop": q("hold_attack_until_loop"),
                    "zones": [{k: rec(z).get(k, "MISSING") for k in ("sample_name", "low_velocity", "high_velocity", "tune_semitones", "loudness_offset",
                                                               "filter_cutoff_offset", "pan_offset", "loop_mode")}
                              for z in as_list(kg.get("velocity_zones"))]})
    p["keygroups"] = [dict(leaves({k: v for k, v in kg.items() if k != "zones"}), zones=[leaves(z) for z in kg["zones"]]) for kg in kgs]
    return dict(leaves({k: v for k, v in p.items() if k != "keygroups"}), keygroups=p["keygroups"])


# ---- Roland samples -----------------------------------------------------------------------------------
def roland_items(rng, n: int):
    items = []
    for i in range(n):
        raws = [rng.randrange(2 ** 32) if rng.random() < 0.5 else rng.randrange(2 ** 20) for _ in range(5)]
        items.append(dict(name=f"Smp{i:02d}", smode=rng.randrange(2), freq=rng.randrange(6), loop_mode=rng.randrange(7), sle=S(rng.randrange(256)),
                          slt=S(rng.randrange(256)), rlt=S(rng.randrange(256)), key=rng.randrange(21, 128), points=[[r >> 16, r & 0xFFFF] for r in raws],
                          raws=raws))
    return items


def roland_image(items, seed) -> bytes:
    case = naming.roland_files_case([it["name"] for it in items])
    for s, it in zip(case["img"]["samples"], items):
        s.update(mode=it["loop_mode"], freq=it["freq"], smode=it["smode"], sle=int(it["sle"]), slt=int(it["slt"]), rlt=int(it["rlt"]), key=it["key"],
                 pts=[r >> 8 for r in it["raws"]], fines=[r & 255 for r in it["raws"]])
    return rw.build_image(case, seed)


def printed_roland(tree) -> Dict[str, Any]:
    g = lambda k: tree.get(k, "MISSING")
    p = {"sample_mode": g("sample_mode"), "sampling_frequency": g("sampling_frequency"), "loop_mode": g("loop_mode"),
         "sustain_loop_enable": g("sustain_loop_enable"), "sustain_loop_tune": g("sustain_loop_tune"), "release_loop_tune": g("release_loop_tune"),
         "original_key": g("original_key")}
    pts = []
    for k in ("start_sample", "sustain_loop_start", "sustain_loop_end", "release_loop_start", "release_loop_end"):
        d = tree.get(k) if isinstance(tree.get(k), dict) else {}
        pts.append({"address": d.get("address", "MISSING"), "fine": d.get("fine", "MISSING")})
    p["points"] = pts
    return leaves(p)


def run(chk: Check):
    thorough = chk.tier == "thorough"
    rng = random.Random(chk.seed)
    chk.rule = ("every header field of every generated item carries its own seeded random in-range value; items: AKAI samples (names, type, "
                "rate incl. 0, counts, markers, tuning, loop type, 8-entry loop table), AKAI programs (all header fields, 1-5 keygroups at "
                "permuted, gapped addresses chained by next-keygroup address, 4 zones of which 0-4 non-empty), Roland samples (mode, frequency "
                "code, loop mode, tunes, key, five 32-bit loop points), CDDA tracks (bin lengths k*2352+r); stored and printed values of each "
                "item are one trace line judged by HeadersTrace.tla; distinct = item; the printer (info.py InfoTree) is modelled in Listing.tla "
                "(depth-first flattening, line cutting with a mark, row cap with an announcement) and every item of its universe is "
                "rendered by the real printer and compared line by line")
    events: List[Dict[str, Any]] = []
    over_cap = 0
    work = tlc.scratch_dir("c20_")
    try:
        def item_ls(image_path, path):
            try:
                return parse_tree(repo.ls(image_path, path))
            except BaseException as e:  # noqa
                return f"EXC {type(e).__name__}: {e}", {}, False
        batches = (40, 30, 16, 12) if thorough else (6, 6, 4, 6)
        per = 16
        for b in range(batches[0]):
            items = akai_sample_items(rng, per)
            p = os.path.join(work, f"as{b}.img")
            open(p, "wb").write(akai_sample_image(items, chk.seed + b))
            img = repo.open_image(p)
            for it in items:
                hdr, tree, trunc = item_ls(img, "A:/VOL/" + it["file_name"])
                events.append({"kind": "akai_sample", "id": f"akai sample {it['file_name']} ({hdr[:40]})", "stored": it, "printed": printed_akai_sample(tree)})
        for b in range(batches[1]):
            items = akai_program_items(rng, 10)
            p = os.path.join(work, f"ap{b}.img")
            open(p, "wb").write(akai_program_image(items, rng, chk.seed + b))
            img = repo.open_image(p)
            for it in items:
                hdr, tree, trunc = item_ls(img, "A:/VOL/" + it["file_name"])
                if trunc:
                    over_cap += 1          # the property speaks of listings under the 300-line cap
                    continue
                st = {k: v for k, v in it.items() if k not in ("perm", "layout", "keygroups")}
                events.append({"kind": "akai_program", "id": f"akai program {it['file_name']} ({hdr[:40]})", "stored": st, "printed": printed_akai_program(tree)})
        for b in range(batches[2]):
            items = roland_items(rng, per)
            p = os.path.join(work, f"r{b}.img")
            open(p, "wb").write(roland_image(items, chk.seed + b))
            img = repo.open_image(p)
            for it in items:
                hdr, tree, trunc = item_ls(img, "Vol/Perf/" + it["name"])
                st = {k: v for k, v in it.items() if k != "raws"}
                events.append({"kind": "roland_sample", "id": f"roland sample {it['name']} ({hdr[:40]})", "stored": st, "printed": printed_roland(tree)})
        for b in range(batches[3]):
            names = ["One", "Two", "Three"][: 1 + b % 3]
            lines, binlen = naming.cue_lines(names)
            extra = [0, 1, 3, 4, 1000, 2351][b % 6]
            cpath, data = cue.write_pair(os.path.join(work, f"cd{b}"), cue.render(lines, b, b), binlen + extra, chk.seed + b)
            img = repo.open_image(cpath)
            for k, nme in enumerate(names):
                hdr, tree, trunc = item_ls(img, nme)
                pcm = 2352 * (k + 1) if k < len(names) - 1 else (2352 * (k + 1) + extra)
                events.append({"kind": "cdda_track", "id": f"cdda track {nme} of {len(names)} (+{extra})", "stored": {"pcm_bytes": pcm, "title": nme},
                               "printed": {k2: tree.get(k2, "MISSING") for k2 in ("num_channels", "sample_rate", "bytes_per_sample", "num_audio_samples", "title")}})
    finally:
        shutil.rmtree(work, ignore_errors=True)
    rej = validate(chk, events, f"trace validation of {len(events)} items (stored vs printed)")
    bad = {r["line"]: r for r in rej}
    for i, e in enumerate(events, start=1):
        chk.evaluated(e["id"], nontrivial=True)
        if i in bad:
            keys = sorted(bad[i]["keys"])
            detail = {k: (e["printed"].get(k), ) for k in keys[:3]}
            chk.violation({"event": e}, f"{e['id']}: printed values differ from the stored ones for {keys}: printed {json.dumps(detail)[:300]}")
        else:
            chk.agree()
    # binding self-test on a line that was accepted: corrupt one printed value, it must be rejected
    good = next((e for i, e in enumerate(events, start=1) if i not in bad and e["kind"] == "akai_sample"
                 and str(e["printed"].get("samples_cnt", "")).isdigit()), None)
    if good is not None:
        e2 = json.loads(json.dumps(good))
        e2["printed"]["samples_cnt"] = str(int(e2["printed"]["samples_cnt"]) + 1)
        if [r["line"] for r in validate(chk, [good, e2], "binding self-test (one corrupted value)")] != [2]:
            raise tlc.TlcError("binding self-test failed")
        chk.extra["binding_selftest"] = "corrupted printed value rejected"
    else:
        chk.extra["binding_selftest"] = "skipped: no accepted AKAI sample line in this run"
    chk.extra["programs_over_300_line_cap_skipped"] = over_cap
    # the printer itself (spec/Listing.tla): nothing of a leaf's description is lost, reordered, cut or capped silently
    listing.check(chk, 6000 if thorough else 700)
    chk.sample({"id": events[0]["id"], "stored": {k: events[0]["stored"][k] for k in ("sampling_rate", "samples_cnt", "loop_type")},
                "printed": {k: events[0]["printed"][k] for k in ("sample_rate", "samples_cnt", "loop_type")}})
    chk.assumptions += ["values < 2^31; 32-bit Roland loop points cross the JSON boundary as 16-bit limbs", "printed floats (cents) are "
                        "converted to x255 integers by the harness (exactness within 1e-6 required)",
                        "the values are drawn by a seeded PRNG in the harness; TLC judges stored-vs-printed with the view rules"]


def validate(chk: Check, events, label):
    work = tlc.scratch_dir("hdrtrace_")
    path = os.path.join(work, "trace.ndjson")
    with open(path, "w") as fh:
        for e in events:
            fh.write(json.dumps(e) + "\n")
    cfg = tlc.cfg_text(spec="Spec", invariants=["Report"], postcondition="TraceAccepted")
    res = chk.run_tlc("HeadersTrace", cfg, workers=1, env={"TRACE_FILE": path}, label=label, timeout_s=3000, expect_ok=False)
    if not res.ok:
        raise tlc.TlcError(f"trace batch not consumed completely ({res.violated}):\n" + res.output[-2500:])
    rep = [c for c in res.cases if "rejected" in c]
    if len(rep) != 1 or rep[0]["lines"] != len(events):
        raise tlc.TlcError("trace validation did not report")
    return rep[0]["rejected"]


def replay(chk: Check, path: str):
    rec = json.load(open(path))["case"]
    rj = validate(chk, [rec["event"]], "replay (recorded stored/printed values)")
    chk.evaluated(rec["event"]["id"])
    if rj:
        chk.violation(rec, f"{rec['event']['id']}: keys {rj[0]['keys']}")
    else:
        chk.agree()
