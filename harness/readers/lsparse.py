"""Parse the tree `ls` prints for a leaf item back into nested dicts (keys as printed; list items keep their 'name[i]' keys in order)."""
from __future__ import annotations

from typing import Any, Dict, List, Tuple


def parse_tree(out: str) -> Tuple[str, Dict[str, Any], bool]:
    """-> (header line, tree, truncated?)"""
    lines = out.splitlines()
    if len(lines) < 2:
        return (lines[0] if lines else ""), {}, False
    header = lines[0]
    root: Dict[str, Any] = {}
    stack: List[Tuple[int, Dict[str, Any]]] = [(-1, root)]
    truncated = False
    for raw in lines[2:]:
        if not raw.strip():
            continue
        if raw.startswith("(...) exceeded"):
            truncated = True
            break
        depth = (len(raw) - len(raw.lstrip(" "))) // 2
        body = raw.strip()
        if ":" not in body:
            continue
        key, _, val = body.partition(":")
        val = val.strip()
        while stack and stack[-1][0] >= depth:
            stack.pop()
        parent = stack[-1][1]
        if val == "":
            node: Dict[str, Any] = {}
            parent[key] = node
            stack.append((depth, node))
        else:
            parent[key] = val
    return header, root, truncated


def as_list(node: Any) -> List[Any]:
    """children of a printed sequence, in printed order"""
    if node in (None, "None") or not isinstance(node, dict):
        return []
    return list(node.values())
