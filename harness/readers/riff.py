"""Independent RIFF/WAVE walker: extracts numbers, judges nothing (the judgement is Wav.tla's)."""
from __future__ import annotations

import struct
from typing import Any, Dict, List


class RiffError(Exception):
    pass


def parse(data: bytes) -> Dict[str, Any]:
    """-> record of plain integers describing the file (all fields present even when malformed;
    `problems` lists what could not be read)."""
    rec: Dict[str, Any] = {"file_len": len(data), "problems": [], "chunks": [], "riff_size": -1, "form": "",
                           "fmt": None, "smpl": None, "data_len": -1, "data_off": -1, "trailing": 0}
    if len(data) < 12 or data[:4] != b"RIFF":
        rec["problems"].append("no RIFF header")
        return rec
    rec["riff_size"] = struct.unpack_from("<I", data, 4)[0]
    rec["form"] = data[8:12].decode("latin-1")
    pos = 12
    while pos + 8 <= len(data):
        cid = data[pos:pos + 4].decode("latin-1")
        size = struct.unpack_from("<I", data, pos + 4)[0]
        body = data[pos + 8:pos + 8 + size]
        rec["chunks"].append({"id": cid, "size": size, "off": pos, "avail": len(body)})
        if cid == "fmt " and len(body) >= 16:
            f = struct.unpack_from("<HHIIHH", body, 0)
            rec["fmt"] = {"size": size, "audio_format": f[0], "channels": f[1], "rate": f[2], "byte_rate": f[3],
                          "block_align": f[4], "bits": f[5]}
        elif cid == "smpl" and len(body) >= 36:
            s = struct.unpack_from("<9I", body, 0)
            loops = []
            for i in range(s[7]):
                o = 36 + 24 * i
                if o + 24 <= len(body):
                    loops.append(list(struct.unpack_from("<6I", body, o)))
            rec["smpl"] = {"size": size, "manufacturer": s[0], "product": s[1], "sample_period": s[2], "midi_note": s[3],
                           "pitch_fraction": s[4], "smpte_format": s[5], "smpte_offset": s[6], "loop_cnt": s[7],
                           "sampler_data": s[8], "loops": loops}
        elif cid == "data":
            rec["data_len"] = size
            rec["data_off"] = pos + 8
        pos += 8 + size          # the tool writes no pad byte; chunk sizes here are even anyway
    rec["trailing"] = len(data) - pos if pos <= len(data) else pos - len(data)
    if pos > len(data):
        rec["problems"].append("last chunk overruns the file")
    return rec


def pcm(data: bytes) -> bytes:
    r = parse(data)
    if r["data_off"] < 0:
        raise RiffError("no data chunk")
    return data[r["data_off"]:r["data_off"] + r["data_len"]]


def deinterleave(pcm_bytes: bytes, channels: int, width: int = 2) -> List[bytes]:
    frame = channels * width
    n = len(pcm_bytes) // frame
    out = [bytearray() for _ in range(channels)]
    for i in range(n):
        for c in range(channels):
            o = i * frame + c * width
            out[c] += pcm_bytes[o:o + width]
    return [bytes(x) for x in out]
