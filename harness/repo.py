"""Access to the implementation under test: always /repo's *current working tree*, imported in
place (never a copy), with the instrumentation guard switched on."""
from __future__ import annotations

import contextlib
import io
import json
import os
import pickle
import resource
import signal
import sys
import tempfile
import time
from typing import Any, Callable, Dict, List, Optional, Tuple

from .core import GUARD, REPO

os.environ.setdefault(GUARD, "1")
os.environ.setdefault("PYTHONHASHSEED", "0")
if sys.path[0] != REPO:
    sys.path.insert(0, REPO)
sys.dont_write_bytecode = True


def guard_cow(mb: int = 4096):
    """Give the *current* (parent) process a generous address-space cap so a runaway loop in
    in-process replay cannot take the sandbox down; children set their own limits."""
    try:
        resource.setrlimit(resource.RLIMIT_AS, (mb << 20, mb << 20))
    except Exception:
        pass


class ChildResult:
    def __init__(self, status: str, value: Any = None, cpu_s: float = 0.0, wall_s: float = 0.0,
                 maxrss_kb: int = 0, err: str = ""):
        self.status = status      # "ok" | "exc" | "timeout" | "cpu" | "mem" | "killed"
        self.value = value
        self.cpu_s, self.wall_s, self.maxrss_kb, self.err = cpu_s, wall_s, maxrss_kb, err

    def __repr__(self):
        return f"ChildResult({self.status}, cpu={self.cpu_s:.2f}, rss={self.maxrss_kb}kB, err={self.err[:80]!r})"


def run_child(fn: Callable[[], Any], *, cpu_s: float = 10.0, mem_mb: int = 1024, wall_s: Optional[float] = None,
              quiet: bool = True) -> ChildResult:
    """Run fn() in a forked child under RLIMIT_CPU / RLIMIT_AS and a wall-clock watchdog.
    The return value (picklable) comes back through a pipe. A hang is an observation."""
    wall_s = wall_s or (cpu_s * 3 + 5)
    r, w = os.pipe()
    t0 = time.time()
    pid = os.fork()
    if pid == 0:  # child
        try:
            os.close(r)
            os.setsid()
            resource.setrlimit(resource.RLIMIT_CPU, (int(cpu_s) + 1, int(cpu_s) + 2))
            resource.setrlimit(resource.RLIMIT_AS, (mem_mb << 20, mem_mb << 20))
            if quiet:
                devnull = os.open(os.devnull, os.O_WRONLY)
                os.dup2(devnull, 1)
                os.dup2(devnull, 2)
            try:
                val = ("ok", fn())
            except MemoryError as e:
                val = ("mem", "MemoryError")
            except BaseException as e:  # noqa
                val = ("exc", f"{type(e).__name__}: {e}"[:500])
            with os.fdopen(w, "wb") as fh:
                pickle.dump(val, fh)
        finally:
            os._exit(0)
    os.close(w)
    deadline = t0 + wall_s
    status = None
    data = b""
    import select
    fd = r
    done = False
    while True:
        rem = deadline - time.time()
        if rem <= 0:
            break
        rl, _, _ = select.select([fd], [], [], min(rem, 0.5))
        if rl:
            chunk = os.read(fd, 1 << 20)
            if not chunk:
                done = True
                break
            data += chunk
    if not done:
        try:
            os.killpg(pid, signal.SIGKILL)
        except Exception:
            try:
                os.kill(pid, signal.SIGKILL)
            except Exception:
                pass
    os.close(r)
    _, st, ru = os.wait4(pid, 0)
    cpu = ru.ru_utime + ru.ru_stime
    wall = time.time() - t0
    if not done:
        return ChildResult("timeout", cpu_s=cpu, wall_s=wall, maxrss_kb=ru.ru_maxrss)
    if os.WIFSIGNALED(st):
        sig = os.WTERMSIG(st)
        kind = "cpu" if sig in (signal.SIGXCPU, signal.SIGKILL) and cpu >= cpu_s * 0.9 else "killed"
        return ChildResult(kind, cpu_s=cpu, wall_s=wall, maxrss_kb=ru.ru_maxrss, err=f"signal {sig}")
    if not data:
        return ChildResult("killed", cpu_s=cpu, wall_s=wall, maxrss_kb=ru.ru_maxrss, err="no result")
    kind, val = pickle.loads(data)
    if kind == "ok":
        return ChildResult("ok", val, cpu, wall, ru.ru_maxrss)
    return ChildResult(kind, None, cpu, wall, ru.ru_maxrss, err=str(val))


class Hang(BaseException):
    """the tool used up its CPU allowance (or the wall-clock fallback) inside one call.  Not an Exception, so that a broad
    `except Exception` inside the tool cannot swallow it; the timers repeat every second in case something does"""


def _alarm(signum, frame):
    raise Hang()


_watching = False


def with_watchdog(fn, seconds: float = 2.0):
    """run fn(); raise Hang when it has used `seconds` of CPU time (ITIMER_PROF: the verdict does not depend on how loaded the
    machine is) or, for a hang that burns no CPU, after a generous wall-clock time.  Re-entrant: an inner call runs under
    the outer allowance."""
    global _watching
    if _watching:
        return fn()
    old_p = signal.signal(signal.SIGPROF, _alarm)
    old_a = signal.signal(signal.SIGALRM, _alarm)
    _watching = True
    signal.setitimer(signal.ITIMER_PROF, seconds, 1.0)
    signal.setitimer(signal.ITIMER_REAL, max(120.0, 30.0 * seconds), 1.0)
    try:
        return fn()
    finally:
        signal.setitimer(signal.ITIMER_PROF, 0)
        signal.setitimer(signal.ITIMER_REAL, 0)
        signal.signal(signal.SIGPROF, old_p)
        signal.signal(signal.SIGALRM, old_a)
        _watching = False


CALL_CPU_S = 30.0         # allowance of one in-process ls / export call (generated images take milliseconds to seconds)


@contextlib.contextmanager
def captured():
    """Capture stdout/stderr of in-process tool calls."""
    out, err = io.StringIO(), io.StringIO()
    with contextlib.redirect_stdout(out), contextlib.redirect_stderr(err):
        yield out, err


def ls(image_or_path, path: str = "") -> str:
    from smpl_extract.actions import ls_action
    with captured() as (out, _):
        with_watchdog(lambda: ls_action(image_or_path, path), CALL_CPU_S)      # a hang is an observation (Hang), not a stuck check
    return out.getvalue()


def export(image_or_path, dest: str) -> List[str]:
    """Run export; returns the `Exported ...` lines (relative paths incl. .wav)."""
    from smpl_extract.actions import export_samples_to_wav
    with captured() as (out, _):
        with_watchdog(lambda: export_samples_to_wav(image_or_path, dest), CALL_CPU_S)
    return [l[len("Exported "):] for l in out.getvalue().splitlines() if l.startswith("Exported ")]


def export_reported(image_or_path, dest: str):
    """Like export, but what was reported BEFORE an abort is kept: -> (Exported lines, error text or "")."""
    from smpl_extract.actions import export_samples_to_wav
    err = ""
    with captured() as (out, _):
        try:
            with_watchdog(lambda: export_samples_to_wav(image_or_path, dest), CALL_CPU_S)
        except Hang:
            raise
        except MemoryError:
            raise
        except BaseException as e:  # noqa - the abort is the observation
            err = f"{type(e).__name__}: {e}"
    return [l[len("Exported "):] for l in out.getvalue().splitlines() if l.startswith("Exported ")], err


def open_image(path: str):
    from smpl_extract.actions import determine_image_type
    return determine_image_type(path)


def walk_files(root: str) -> Dict[str, bytes]:
    res = {}
    for d, _, files in os.walk(root):
        for f in files:
            p = os.path.join(d, f)
            with open(p, "rb") as fh:
                res[os.path.relpath(p, root)] = fh.read()
    return res
