"""Shared by C08 / C11 / C15: configurations for spec/Streams.tla and their replay into the real
view classes of smpl_extract.util.stream / util.sector / util.fat / alcohol.mdf."""
from __future__ import annotations

import io
from typing import Any, Dict, List, Optional

from . import tlc


def view(k, par, size=0, off=0, slen=1, lst=(), hdr=0, tail=0, width=1, blen=0):
    return {"k": k, "par": par, "size": size, "off": off, "slen": slen, "list": list(lst),
            "hdr": hdr, "tail": tail, "width": width, "blen": blen}


def config(base, views, flen=None, targets=None, extra=()):
    return {"base": base, "flen": base if flen is None else flen, "views": views, "extra": set(extra),
            "targets": set(targets) if targets else set(range(1, len(views) + 1))}


def tiny_configs(wide: bool = False) -> List[dict]:
    """Configurations over a file of <= 16 byte tokens; the nestings mirror the stacks the tool
    really builds (comments name them)."""
    C = []
    C.append(config(8, [view("off", 0, size=4, off=2)]))                       # CDDA track window
    C.append(config(6, [view("wrap", 0, size=5)]))
    C.append(config(6, [view("sect", 0, size=6, slen=2)]))
    C.append(config(9, [view("sect", 0, size=9, slen=3)]))
    C.append(config(8, [view("chain", 0, slen=2, lst=[2, 0, 3])]))             # fragmented file
    C.append(config(9, [view("chain", 0, slen=3, lst=[1, 0])]))
    C.append(config(8, [view("chain", 0, slen=2, lst=[1])]))
    C.append(config(12, [view("chain", 0, slen=2, lst=[4, 0, 3, 1, 5])]))      # one read can span 5 scattered sectors
    C.append(config(12, [view("chain", 0, slen=2, lst=[0, 2, 1, 3])]))         # first and last sector as in a contiguous run, interior permuted
    C.append(config(12, [view("chain", 0, slen=2, lst=[1, 5, 3])]))            # ... interior outside the span
    C.append(config(8, [view("chain", 0, slen=2, lst=[0, 1, 2, 3])]))          # a contiguous run
    C.append(config(12, [view("mdf", 0, size=6, slen=2, hdr=1, tail=1)]))      # MODE1/2352 scaled to 1+2+1
    C.append(config(14, [view("mdf", 0, size=6, slen=2, hdr=1, tail=1)]))      # ... with a trailing fragment of a sector behind the last whole one
    C.append(config(6, [view("rev", 0, size=6, width=2)]))
    C.append(config(6, [view("rev", 0, size=4, width=1)]))
    C.append(config(6, [view("rev", 0, size=6, width=3)]))                     # a sample width that is not a power of two (24-bit samples)
    C.append(config(9, [view("off", 0, size=6, off=2), view("rev", 1, size=6, width=3)]))
    C.append(config(8, [view("off", 0, size=4, off=2), view("rev", 1, size=4, width=2)]))   # Roland reverse modes
    # AKAI sample: Segment <- StreamWrapper(size) <- StreamOffset(data window)
    C.append(config(10, [view("chain", 0, slen=2, lst=[3, 1, 4]), view("wrap", 1, size=5), view("off", 2, size=3, off=1)],
                    targets=None if wide else [2, 3]))
    C.append(config(10, [view("chain", 0, slen=2, lst=[3, 1, 4]), view("wrap", 1, size=6), view("off", 2, size=4, off=2)],
                    targets=None if wide else [3]))  # exact fill
    # Roland sample: RolandFile <- StreamOffset <- StreamReversed
    C.append(config(8, [view("chain", 0, slen=2, lst=[2, 0, 3]), view("off", 1, size=4, off=2), view("rev", 2, size=4, width=2)],
                    targets=None if wide else [3]))
    # partition inside raw sectors: Mdf <- StreamOffset(partition) <- Segment <- wrapper
    C.append(config(16, [view("mdf", 0, size=8, slen=2, hdr=1, tail=1), view("off", 1, size=6, off=2),
                         view("chain", 2, slen=2, lst=[2, 0]), view("wrap", 3, size=3)], targets=[4, 1]))
    # two files sharing the handle (left / right sample), each chain <- offset
    C.append(config(8, [view("chain", 0, slen=2, lst=[0, 2]), view("chain", 0, slen=2, lst=[3, 1]),
                        view("off", 1, size=3, off=1), view("off", 2, size=3, off=1)], targets=[3, 4]))
    # two CDDA-like windows over the file
    C.append(config(8, [view("off", 0, size=4, off=0), view("off", 0, size=4, off=4)]))
    # readall with a buffer smaller than the view: several loop iterations (reversed: buffer a multiple of the width)
    C.append(config(8, [view("off", 0, size=5, off=2, blen=2)]))
    C.append(config(8, [view("chain", 0, slen=2, lst=[2, 0, 3], blen=3)]))
    C.append(config(6, [view("rev", 0, size=6, width=2, blen=4)]))
    # empty windows (an AKAI sample whose markers coincide): read must return nothing
    C.append(config(6, [view("off", 0, size=0, off=2)]))
    C.append(config(8, [view("chain", 0, slen=2, lst=[2, 0]), view("wrap", 1, size=4), view("off", 2, size=0, off=1)], targets=[3]))
    return C


def short_configs() -> List[dict]:
    """The same kinds of stacks over a file that is shorter than the windows (truncated image)."""
    C = []
    for flen in (3, 5, 7):
        C.append(config(8, [view("off", 0, size=4, off=2)], flen))
        C.append(config(8, [view("chain", 0, slen=2, lst=[2, 0, 3])], flen))
        C.append(config(10, [view("chain", 0, slen=2, lst=[3, 1, 4]), view("wrap", 1, size=5), view("off", 2, size=3, off=1)], flen))
    C.append(config(12, [view("mdf", 0, size=6, slen=2, hdr=1, tail=1)], 9))
    return C


def medium_configs() -> List[dict]:
    """Sector length 16, reads spanning several boundaries (used with -simulate)."""
    C = []
    X = (15, 16, 17, 32, 33, 48, 64, 65)
    C.append(config(160, [view("chain", 0, slen=16, lst=[7, 2, 9, 0, 5])], extra=X))
    C.append(config(160, [view("chain", 0, slen=16, lst=[7, 2, 9, 0, 5]), view("wrap", 1, size=70), view("off", 2, size=50, off=14)], extra=X))
    C.append(config(200, [view("mdf", 0, size=160, slen=16, hdr=2, tail=2), view("off", 1, size=128, off=16),
                          view("chain", 2, slen=16, lst=[5, 0, 3, 6]), view("off", 3, size=40, off=10)], extra=X))
    C.append(config(160, [view("chain", 0, slen=16, lst=[1, 8, 3]), view("off", 1, size=32, off=8), view("rev", 2, size=32, width=2)], extra=(16, 18)))
    C.append(config(120, [view("off", 0, size=60, off=30), view("off", 0, size=40, off=0)], extra=(17, 32)))
    return C


def mc_module(configs: List[dict], name: str = "MCStreams") -> str:
    return (f"---- MODULE {name} ----\nEXTENDS Streams\nMCConfigs == {{\n  "
            + ",\n  ".join(tlc.tla(c) for c in configs) + "\n}\n====\n")


def streams_cfg(*, depth: int, keep: bool, opviews: str, emit: bool, invariants: List[str],
                zero_read: bool = True, reseek: bool = True, empty_clip: bool = True) -> str:
    return tlc.cfg_text(
        constants=dict(Configs=tlc.Subst("MCConfigs"), Depth=depth, KeepHist=keep, OpViews=opviews,
                       ZeroReadAtChainEnd=zero_read, ReseekTest=reseek, EmptyWindowReadsNothing=empty_clip,
                       EmitCases=emit),
        invariants=invariants)


ALL_INVARIANTS = ["ReadReturnsLogicalSlice", "PosAdvancesByLen", "ReadAllReturnsRest", "SeekClamps",
                  "TellIsPosition", "PosInRange", "ShortFileGivesPrefix"]


# ---- replay into the real classes --------------------------------------------------------------
ERR_NAMES = {
    "BadReadSize": "BadReadSize", "BadAlign": "BadAlign", "SectorReadError": "SectorReadError",
    "AttemptToReadBeyondBuffer": "AttemptToReadBeyondBuffer", "IndexError": "IndexError",
    "ValueError": "ValueError", "ShortReverse": "ValueError",
}


class MdfPatch:
    def __init__(self, hdr, body, tail):
        self.v = (hdr + body + tail, hdr, body)

    def __enter__(self):
        import smpl_extract.alcohol.mdf as m
        self.m = m
        self.old = (m.MDF_SECTOR_SIZE, m.MDF_SECTOR_HEADER_SIZE, m.MDF_SECTOR_BODY_SIZE)
        m.MDF_SECTOR_SIZE, m.MDF_SECTOR_HEADER_SIZE, m.MDF_SECTOR_BODY_SIZE = self.v

    def __exit__(self, *a):
        m = self.m
        m.MDF_SECTOR_SIZE, m.MDF_SECTOR_HEADER_SIZE, m.MDF_SECTOR_BODY_SIZE = self.old


def token_byte(t: int) -> int:
    return (t - 1) % 251 + 1


def build(cfg: dict):
    """-> (file, [views])  real objects for a configuration"""
    from smpl_extract.util.stream import StreamWrapper, StreamOffset, StreamReversed
    from smpl_extract.util.sector import SectorStream
    from smpl_extract.util.fat import FileStream
    import smpl_extract.alcohol.mdf as mdf
    f = io.BytesIO(bytes(token_byte(k) for k in range(1, cfg["flen"] + 1)))
    objs = [f]
    for d in cfg["views"]:
        par = objs[d["par"]]
        k = d["k"]
        kw = {"buffer_length": d["blen"]} if d.get("blen") else {}
        if k == "wrap":
            o = StreamWrapper(par, d["size"], **kw)
        elif k == "off":
            o = StreamOffset(par, d["size"], d["off"], **kw)
        elif k == "rev":
            o = StreamReversed(par, d["size"], sample_width=d["width"], **kw)
        elif k == "sect":
            o = SectorStream(par, d["size"], d["slen"], **kw)
        elif k == "chain":
            o = FileStream(par, d["slen"], list(d["list"]), **kw)
        elif k == "mdf":
            with MdfPatch(d["hdr"], d["slen"], d["tail"]):
                o = mdf.MdfStream(par)
            # geometry is read from module constants at call time
            o._verif_patch = (d["hdr"], d["slen"], d["tail"])
        else:
            raise ValueError(k)
        objs.append(o)
    return f, objs


def run_op(cfg, objs, o) -> Dict[str, Any]:
    """Execute one specification operation on the real stack; returns the observation."""
    import contextlib
    v = objs[o["v"]]
    mdfs = [d for d in cfg["views"] if d["k"] == "mdf"]
    ctx = MdfPatch(mdfs[0]["hdr"], mdfs[0]["slen"], mdfs[0]["tail"]) if mdfs else contextlib.nullcontext()
    before = v.tell()
    obs = {"err": "", "data": b"", "ret": -1, "before": before}
    try:
        with ctx:
            if o["op"] == "seek":
                obs["ret"] = v.seek(o["a"], o["w"])
            elif o["op"] == "read":
                obs["data"] = v.read(o["a"])
            elif o["op"] == "readall":
                obs["data"] = v.readall()
            elif o["op"] == "tell":
                obs["ret"] = v.tell()
    except Exception as e:  # the class name is the observation
        obs["err"] = type(e).__name__
        obs["data"] = b""
        obs["ret"] = -1
    obs["after"] = v.tell()
    return obs


def compare_step(h: dict, obs: dict) -> Optional[str]:
    """None if the observation equals the specification's prediction for this step."""
    want_err = ERR_NAMES.get(h["err"], h["err"])
    if want_err != obs["err"]:
        return f"error: spec {h['err'] or 'none'} / code {obs['err'] or 'none'}"
    if h["before"] != obs["before"]:
        return f"position before: spec {h['before']} / code {obs['before']}"
    want = bytes(token_byte(t) for t in h["data"])
    if want != obs["data"]:
        return f"data: spec {list(want)} / code {list(obs['data'])}"
    if h["after"] != obs["after"]:
        return f"position after: spec {h['after']} / code {obs['after']}"
    if h["op"]["op"] in ("seek", "tell") and h["ret"] != obs["ret"]:
        return f"return value: spec {h['ret']} / code {obs['ret']}"
    return None


def replay_behaviour(case: dict):
    """-> (index of first differing step or None, text)"""
    cfg = case["cfg"]
    f, objs = build(cfg)
    for i, h in enumerate(case["hist"]):
        obs = run_op(cfg, objs, h["op"])
        d = compare_step(h, obs)
        if d:
            return i, d
    return None, ""
