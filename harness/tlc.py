"""Thin, careful wrapper around TLC.

Everything a property check learns from the specification goes through here:
 * run(...)        : exhaustive model checking (safety / liveness) of spec + generated cfg
 * simulate(...)   : tlc -simulate
 * CASE protocol   : the spec prints  <<"CASE", "<json>">>  lines through PrintT(ToJson(..));
                     they are parsed back with json.loads
 * statistics      : states generated / distinct / depth, per-action coverage (vacuity guard)

Exit status 2 of the *check* is reserved for machinery failure: TlcError is raised for
anything that is not a clean verdict (parse error, TLC crash, timeout).
"""
from __future__ import annotations

import json
import os
import re
import shutil
import subprocess
import tempfile
import time
from dataclasses import dataclass, field
from typing import Any, Dict, List, Optional

SPEC_DIR = os.path.join(os.path.dirname(os.path.dirname(os.path.abspath(__file__))), "spec")
JAR = "/opt/veriftools/tla/tla2tools.jar"
DEPS = "/opt/veriftools/tla/CommunityModules-deps.jar"


class TlcError(Exception):
    pass


@dataclass
class TlcResult:
    cmd: str
    ok: bool                      # no invariant / property / assumption violated
    violated: Optional[str]       # name of violated invariant / "temporal" / "deadlock" / "assumption"
    generated: int = 0
    distinct: int = 0
    depth: int = 0
    wall_s: float = 0.0
    cases: List[Dict[str, Any]] = field(default_factory=list)
    coverage: Dict[str, int] = field(default_factory=dict)   # action name -> distinct states found by it
    output: str = ""
    trace: List[str] = field(default_factory=list)           # textual error trace states (if any)
    traces: int = 0                                            # simulation mode: behaviours generated


_STATS = re.compile(r"(\d+) states generated, (\d+) distinct states found, (\d+) states left on queue")
_DEPTH = re.compile(r"The depth of the complete state graph search is (\d+)")
_COV = re.compile(r"^<(\w+) line \d+, col \d+ to line \d+, col \d+ of module (\w+)>: (\d+):(\d+)", re.M)
_INV = re.compile(r"Invariant (\w+) is violated")
_CASE = re.compile(r'^<<"CASE", "(.*)">>$')


def cfg_text(*, init: str = "Init", next: str = "Next", spec: Optional[str] = None,
             constants: Optional[Dict[str, Any]] = None,
             invariants: Optional[List[str]] = None, properties: Optional[List[str]] = None,
             constraints: Optional[List[str]] = None, action_constraints: Optional[List[str]] = None,
             postcondition: Optional[str] = None, deadlock: bool = False, view: Optional[str] = None,
             symmetry: Optional[str] = None) -> str:
    out = []
    if spec:
        out.append(f"SPECIFICATION {spec}")
    else:
        out.append(f"INIT {init}")
        out.append(f"NEXT {next}")
    if constants:
        out.append("CONSTANTS")
        for k, v in constants.items():
            if isinstance(v, Subst):
                out.append(f"  {k} <- {v.name}")
            else:
                out.append(f"  {k} = {fmt(v)}")
    for inv in invariants or []:
        out.append(f"INVARIANT {inv}")
    for p in properties or []:
        out.append(f"PROPERTY {p}")
    for c in constraints or []:
        out.append(f"CONSTRAINT {c}")
    for c in action_constraints or []:
        out.append(f"ACTION_CONSTRAINT {c}")
    if postcondition:
        out.append(f"POSTCONDITION {postcondition}")
    if view:
        out.append(f"VIEW {view}")
    if symmetry:
        out.append(f"SYMMETRY {symmetry}")
    out.append(f"CHECK_DEADLOCK {'TRUE' if deadlock else 'FALSE'}")
    return "\n".join(out) + "\n"


def fmt(v: Any) -> str:
    """Python value -> TLA+ cfg literal."""
    if isinstance(v, bool):
        return "TRUE" if v else "FALSE"
    if isinstance(v, int):
        if v < 0:
            raise TlcError("cfg files reject negative literals; define them in the module")
        return str(v)
    if isinstance(v, str):
        return '"' + v.replace("\\", "\\\\").replace('"', '\\"') + '"'
    if isinstance(v, (list, tuple)):
        return "<<" + ", ".join(fmt(x) for x in v) + ">>"
    if isinstance(v, (set, frozenset)):
        return "{" + ", ".join(fmt(x) for x in sorted(v, key=repr)) + "}"
    if isinstance(v, dict):
        return "[" + ", ".join(f"{k} |-> {fmt(x)}" for k, x in v.items()) + "]"
    if isinstance(v, Raw):
        return v.text
    raise TlcError(f"cannot format {v!r}")


class Subst:
    """cfg operator substitution: CONSTANT <- DefinitionInTheMCModule"""
    def __init__(self, name: str):
        self.name = name


class SetOf:
    """a TLA+ set whose elements are not hashable in Python (records, sequences)"""
    def __init__(self, items):
        self.items = list(items)


def tla(v: Any) -> str:
    """Python value -> TLA+ expression text (for generated MC modules); negative ints allowed."""
    if isinstance(v, SetOf):
        return "{" + ", ".join(tla(x) for x in v.items) + "}"
    if isinstance(v, bool):
        return "TRUE" if v else "FALSE"
    if isinstance(v, int):
        return str(v) if v >= 0 else f"(0 - {-v})"
    if isinstance(v, str):
        return '"' + v.replace("\\", "\\\\").replace('"', '\\"') + '"'
    if isinstance(v, (list, tuple)):
        return "<<" + ", ".join(tla(x) for x in v) + ">>"
    if isinstance(v, (set, frozenset)):
        return "{" + ", ".join(sorted(tla(x) for x in v)) + "}"
    if isinstance(v, dict):
        return "[" + ", ".join(f"{k} |-> {tla(x)}" for k, x in v.items()) + "]"
    raise TlcError(f"cannot render {v!r}")


def _complex(v: Any) -> bool:
    if isinstance(v, (list, tuple, dict, SetOf)):
        return True
    if isinstance(v, (set, frozenset)):
        return any(_complex(x) or (isinstance(x, int) and not isinstance(x, bool) and x < 0) for x in v)
    return isinstance(v, int) and not isinstance(v, bool) and v < 0


def prepare(module: str, constants: Dict[str, Any], **kw) -> Dict[str, Any]:
    """Constants that a cfg file cannot express (tuples, records, negative numbers) are moved into a
    generated module MC_<module> that EXTENDS <module>; returns kwargs for run()/Check.run_tlc()."""
    defs, simple = {}, {}
    for k, v in constants.items():
        if _complex(v):
            defs[k] = v
            simple[k] = Subst(f"MC_{k}")
        else:
            simple[k] = v
    cfg = cfg_text(constants=simple, **kw)
    if not defs:
        return {"module": module, "cfg": cfg, "files": {}}
    mc = f"MC_{module}"
    text = f"---- MODULE {mc} ----\nEXTENDS {module}\n" + "".join(f"MC_{k} == {tla(v)}\n" for k, v in defs.items()) + "====\n"
    return {"module": mc, "cfg": cfg, "files": {f"{mc}.tla": text}}


class Raw:
    """A literal piece of cfg text (model value, operator substitution `<- Name` is handled by key)."""
    def __init__(self, text: str):
        self.text = text


def parse_output(out: str, cmd: str, wall: float) -> TlcResult:
    res = TlcResult(cmd=cmd, ok=True, violated=None, wall_s=wall, output=out)
    for m in _STATS.finditer(out):
        res.generated, res.distinct = int(m.group(1)), int(m.group(2))
    m = _DEPTH.search(out)
    if m:
        res.depth = int(m.group(1))
    m = re.search(r"The number of states generated: (\d+)", out)
    if m and not res.generated:      # simulation mode: states checked along random behaviours
        res.generated = int(m.group(1))
    m = re.search(r"(\d+) traces generated", out)
    if m:
        res.depth = max(res.depth, 0)
        res.traces = int(m.group(1))
    for m in _COV.finditer(out):
        res.coverage[m.group(1)] = res.coverage.get(m.group(1), 0) + int(m.group(4))
    for line in out.splitlines():
        m = _CASE.match(line.strip())
        if m:
            try:
                # the TLA+ string printer escapes \ and " once more around the JSON text
                res.cases.append(json.loads(_unescape_tla(m.group(1))))
            except Exception as e:  # pragma: no cover - machinery failure
                raise TlcError(f"unparsable CASE line: {line[:200]} ({e})")
    m = _INV.search(out)
    if m:
        res.ok, res.violated = False, m.group(1)
    elif "Temporal properties were violated" in out or re.search(r"Temporal property \w+ was violated", out):
        res.ok, res.violated = False, "temporal"
    elif "Action property" in out and "is violated" in out:
        res.ok, res.violated = False, "action_property"
    elif "Deadlock reached" in out:
        res.ok, res.violated = False, "deadlock"
    elif re.search(r"Assumption .* is false", out):
        res.ok, res.violated = False, "assumption"
    elif "The postcondition" in out and "violated" in out or "Postcondition" in out and "violated" in out:
        res.ok, res.violated = False, "postcondition"
    if not res.ok:
        res.trace = re.findall(r"^State \d+:.*?(?=^State \d+:|\Z)", out, flags=re.M | re.S)
    return res


def _unescape_tla(s: str) -> str:
    out = []
    i = 0
    while i < len(s):
        c = s[i]
        if c == "\\" and i + 1 < len(s):
            n = s[i + 1]
            if n in '"\\':
                out.append(n)
                i += 2
                continue
            if n == "n":
                out.append("\n"); i += 2; continue
            if n == "t":
                out.append("\t"); i += 2; continue
        out.append(c)
        i += 1
    return "".join(out)


def run(module: str, cfg: str, *, workers: int = 16, timeout_s: int = 600, coverage: bool = False,
        simulate: Optional[str] = None, depth: Optional[int] = None, seed: Optional[int] = None,
        env: Optional[Dict[str, str]] = None, extra: Optional[List[str]] = None,
        liveness: bool = False, heap: str = "4g", dfs_queue: bool = False,
        files: Optional[Dict[str, str]] = None) -> TlcResult:
    """Run TLC on spec/<module>.tla with the given cfg text in a private scratch directory."""
    work = tempfile.mkdtemp(prefix="tlc_", dir=_scratch_root())
    try:
        for f in os.listdir(SPEC_DIR):
            if f.endswith(".tla"):
                shutil.copy(os.path.join(SPEC_DIR, f), os.path.join(work, f))
        for name, text in (files or {}).items():
            with open(os.path.join(work, name), "w") as fh:
                fh.write(text)
        with open(os.path.join(work, "run.cfg"), "w") as fh:
            fh.write(cfg)
        jopts = [f"-Xmx{heap}", "-XX:+UseParallelGC"]
        if dfs_queue:
            jopts.append("-Dtlc2.tool.queue.IStateQueue=StateDeque")
        cmd = ["java", *jopts, "-cp", f"{JAR}:{DEPS}", "tlc2.TLC",
               "-workers", str(workers), "-metadir", os.path.join(work, "states"),
               "-noGenerateSpecTE", "-config", "run.cfg"]
        if coverage:
            cmd += ["-coverage", "1"]
        if simulate is not None:
            cmd += ["-simulate", simulate] if simulate else ["-simulate"]
        if depth is not None:
            cmd += ["-depth", str(depth)]
        if seed is not None:
            cmd += ["-seed", str(seed)]
        if liveness:
            cmd += ["-lncheck", "final"]
        cmd += extra or []
        cmd.append(module + ".tla")
        e = dict(os.environ)
        e.pop("JAVA_TOOL_OPTIONS", None)
        e.update(env or {})
        t0 = time.time()
        try:
            p = subprocess.run(cmd, cwd=work, env=e, stdout=subprocess.PIPE, stderr=subprocess.STDOUT,
                               timeout=timeout_s, text=True, errors="replace")
        except subprocess.TimeoutExpired as ex:
            subprocess.run(["pkill", "-f", work], check=False)
            raise TlcError(f"TLC timed out after {timeout_s}s on {module}")
        wall = time.time() - t0
        out = p.stdout
        shown = " ".join(cmd[cmd.index("tlc2.TLC"):]).replace(work + "/", "")
        res = parse_output(out, "tlc " + shown.split(" ", 1)[1], wall)
        fatal = ("Parsing or semantic analysis failed" in out or "***Parse Error***" in out
                 or "java.lang." in out and "Exception" in out and res.ok and p.returncode not in (0,)
                 or "Error: TLC threw an unexpected exception" in out
                 or "TLC encountered a non-enumerable" in out
                 or "was not able to" in out and "Error:" in out)
        if fatal or (p.returncode != 0 and res.ok):
            tail = "\n".join(out.splitlines()[-40:])
            raise TlcError(f"TLC failed on {module} (rc={p.returncode}):\n{tail}")
        return res
    finally:
        shutil.rmtree(work, ignore_errors=True)


_SCRATCH: Optional[str] = None


def _scratch_root() -> str:
    global _SCRATCH
    if _SCRATCH is None:
        base = os.environ.get("VERIF_SCRATCH") or tempfile.gettempdir()
        _SCRATCH = tempfile.mkdtemp(prefix="verif_", dir=base)
        import atexit
        atexit.register(lambda: shutil.rmtree(_SCRATCH, ignore_errors=True))
    return _SCRATCH


def scratch_dir(prefix: str = "w_") -> str:
    return tempfile.mkdtemp(prefix=prefix, dir=_scratch_root())


def apalache_inductive(module: str, inv: str = "Inv", init: str = "Init", ind_init: str = "IndInit", timeout_s: int = 300) -> Dict[str, Any]:
    """Init => Inv (length 0) and Inv /\\ Next => Inv' (length 1, from an arbitrary state satisfying Inv) with Apalache: an unbounded
    (not small-constants) safety argument for a module over integers.  -> {"base": bool, "step": bool, "wall_s": float, "cmds": [...]}"""
    import shutil as _sh
    import subprocess as _sp
    import time as _t
    exe = _sh.which("apalache-mc")
    if not exe:
        return {"available": False}
    work = scratch_dir("apa_")
    out = {"available": True, "cmds": []}
    t0 = _t.time()
    try:
        _sh.copy(os.path.join(SPEC_DIR, module + ".tla"), os.path.join(work, module + ".tla"))
        for key, ini, length in (("base", init, 0), ("step", ind_init, 1)):
            cmd = [exe, "check", f"--init={ini}", f"--inv={inv}", f"--length={length}", f"--out-dir={os.path.join(work, 'out_' + key)}", module + ".tla"]
            p = _sp.run(cmd, cwd=work, capture_output=True, text=True, timeout=timeout_s)
            out[key] = p.returncode == 0 and "EXITCODE: OK" in p.stdout
            out["cmds"].append(" ".join(cmd[:5]) + " " + module + ".tla")
            if not out[key]:
                out[key + "_tail"] = "\n".join(p.stdout.splitlines()[-12:])
    finally:
        _sh.rmtree(work, ignore_errors=True)
    out["wall_s"] = round(_t.time() - t0, 1)
    return out
