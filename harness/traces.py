"""Recording traces from the instrumented implementation and validating them with TLC trace specifications."""
from __future__ import annotations

import contextlib
import json
import os
from typing import Any, Dict, List

from . import tlc
from .core import Check


@contextlib.contextmanager
def recording(path: str):
    """events emitted by smpl_extract while the block runs are appended to `path`"""
    from smpl_extract import _verif_trace as vt
    if not vt.ON:
        raise tlc.TlcError("instrumentation guard is off (SMPL_EXTRACT_VERIF=1 must be set before smpl_extract is imported)")
    vt.reset()
    old = os.environ.get("SMPL_EXTRACT_VERIF_LOG")
    os.environ["SMPL_EXTRACT_VERIF_LOG"] = path
    try:
        yield
    finally:
        vt.reset()
        if old is None:
            os.environ.pop("SMPL_EXTRACT_VERIF_LOG", None)
        else:
            os.environ["SMPL_EXTRACT_VERIF_LOG"] = old


def load(path: str, tid: int, events=None, short: bool = False) -> List[Dict[str, Any]]:
    out = []
    if not os.path.exists(path):
        return out
    with open(path) as fh:
        for line in fh:
            e = json.loads(line)
            if events and e["event"] not in events:
                continue
            e["tid"] = tid
            e["short"] = short
            out.append(e)
    return out


def validate(chk: Check, module: str, events: List[Dict[str, Any]], label: str) -> List[dict]:
    """batch trace validation; returns the rejected entries (line numbers are 1-based indices into `events`)"""
    if not events:
        return []
    work = tlc.scratch_dir("trace_")
    path = os.path.join(work, "trace.ndjson")
    with open(path, "w") as fh:
        for e in events:
            for v in e.values():
                if isinstance(v, int) and not isinstance(v, bool) and abs(v) >= 2 ** 31:
                    raise tlc.TlcError("trace value exceeds TLC's 32-bit integers")
            fh.write(json.dumps(e) + "\n")
    cfg = tlc.cfg_text(spec="Spec", invariants=["Report"], postcondition="TraceAccepted")
    res = chk.run_tlc(module, cfg, workers=1, env={"TRACE_FILE": path}, label=label, timeout_s=3000, expect_ok=False, heap="8g")
    if not res.ok:
        raise tlc.TlcError(f"trace batch not consumed completely ({res.violated}):\n" + res.output[-1500:])
    if len(res.cases) != 1 or res.cases[0]["lines"] != len(events):
        raise tlc.TlcError("trace validation did not report")
    return res.cases[0]["rejected"]
