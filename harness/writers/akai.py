"""Independent AKAI S1000/S3000 image writer, driven by the layout tables of Headers.tla and by a
case emitted by AkaiImage.tla (logical model + sector layout + SAT words).

Every sector is first filled with PRNG bytes keyed by (seed, partition, sector), so every byte
names its origin; structures are then overlaid.  Sample data is therefore 'whatever lies in the
chain after the header' and the expected PCM is read back from the image at the extents the
specification predicts."""
from __future__ import annotations

import random
from typing import Any, Dict, List, Optional

from .fields import pack, akai_bytes, size_of

MAGIC = b"".join(((3333 * i) & 0xFFFF).to_bytes(2, "little") for i in range(1, 98))
SAT_ENTRIES = 11386
END_MARK = 0xD747


def sector_bytes(seed: int, part: int, sector: int, S: int) -> bytes:
    return random.Random(f"{seed}/{part}/{sector}").randbytes(S)


def sample_header(f: Dict[str, Any], extra: Optional[Dict[str, Any]] = None) -> bytes:
    vals = dict(id=1 if f["ftype"] == 0x73 else 3, note_pitch=60, sample_name=f["name"], loop_type=2,
                pitch_offset_cents=0, pitch_offset_semi=0, samples_cnt=f["cnt"], play_start=f["ps"],
                play_end=f["pe"], loops=bytes(96), sampling_rate=f["rate"])
    vals.update(f.get("hdr") or {})
    vals.update(extra or {})
    return pack("akai_sample_header", vals)


def minimal_program(name: str) -> bytes:
    """a valid one-keygroup program (header 72 bytes, keygroup at 150 with 4 empty zones)"""
    hdr = pack("akai_program_header", dict(program_id=1, first_keygroup_address=150, program_name=name[:12], number_of_keygroups=1,
                                           low_key=24, high_key=127, key_temperaments=bytes(12), polyphony=15, priority=1))
    zone = pack("akai_velocity_zone", dict(sample_name="", low_velocity=0, high_velocity=127, pad2c=b"\x2c", pad01=b"\x01"))
    kg = pack("akai_keygroup_head", dict(block_id=2, next_keygroup_address=0, low_key=24, high_key=127, num_velocity_zones=4)) + zone * 4 + \
        pack("akai_keygroup_tail", dict(enable_key_tracking=bytes(4), aux_out_offset=bytes(4), velocity_to_sample_start=bytes(8)))
    return hdr + bytes(150 - len(hdr)) + kg


def file_entry(name: str, ftype: int, size: int, start: int) -> bytes:
    return pack("akai_file_entry", dict(name=name, file_type=ftype, size=size, start=start))


def end_entry() -> bytes:
    e = bytearray(file_entry("", 0x73, 0, 0))
    e[8:10] = END_MARK.to_bytes(2, "little")
    return bytes(e)


def build_partition(part: Dict[str, Any], pi: int, case: Dict[str, Any], seed: int) -> bytearray:
    S, nsect = case["S"], case["nsect"]
    buf = bytearray()
    for k in range(nsect):
        buf += sector_bytes(seed, pi, k, S)
    hdr = pack("akai_partition_header", dict(size=nsect, magic=MAGIC, chk1=0x55, chk2=0xBA, tail=b"\x2f\x00"))
    vols = part["vols"]
    ventries = b""
    slot_of = {(2 * k + 1 if part.get("volgap") else k): v for k, v in enumerate(vols)}     # entry index -> volume
    for i in range(100):
        if i in slot_of:
            v = slot_of[i]
            ventries += pack("akai_volume_entry", dict(name=v["name"], type=v["vtype"], start=v["dir"][0]))
        else:
            ventries += pack("akai_volume_entry", dict(name="", type=0, start=0))
    sat = [0] * SAT_ENTRIES
    for sec, word in part["sat"]:
        sat[sec] = word
    satb = b"".join(w.to_bytes(2, "little") for w in sat)
    head = hdr + ventries + satb
    assert len(head) == 3 * 8192 - 2
    buf[0:len(head)] = head
    for v in vols:
        table = b"".join(file_entry("", 0x73, 0, 0) for _ in range(v.get("blanks", 0)))
        for f in v["files"]:
            fsize = f.get("size", case["H"] + 2 * f["cnt"])
            table += f.get("entry_raw") or file_entry(f["name"], f["ftype"], fsize, f["chain"][0])
        table += end_entry()
        if len(table) > len(v["dir"]) * S:
            raise ValueError("file table does not fit its directory chain")
        for j, sec in enumerate(v["dir"]):
            piece = table[j * S:(j + 1) * S]
            buf[sec * S:sec * S + len(piece)] = piece
        for f in v["files"]:
            if f.get("no_header") or f["ftype"] == 0x64:
                continue                                   # no parser for this type: content stays random
            if f["ftype"] in (0x70, 0xF0) and not f.get("content_head"):
                f = dict(f, content_head=minimal_program(f["name"]))
            h = f.get("content_head") or sample_header(f)
            # the header lies in the first sector(s) of the chain, in chain order
            pos = 0
            for sec in f["chain"]:
                piece = h[pos:pos + S]
                if not piece:
                    break
                buf[sec * S:sec * S + len(piece)] = piece
                pos += S
    return buf


def build_image(case: Dict[str, Any], seed: int = 0) -> bytes:
    out = bytearray()
    for pi, part in enumerate(case["parts"]):
        out += build_partition(part, pi + 1, case, seed)
    return bytes(out)


def read_extents(image: bytes, case: Dict[str, Any], part: int, extents: List[Dict[str, int]]) -> bytes:
    S, nsect = case["S"], case["nsect"]
    base = (part - 1) * nsect * S
    return b"".join(image[base + e["sector"] * S + e["off"]: base + e["sector"] * S + e["off"] + e["len"]] for e in extents)
