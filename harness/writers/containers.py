"""Container encodings of a disc image (independent writers): MODE1/2352 raw sectors, Alcohol MDX header, cue sheets."""
from __future__ import annotations

import os
from typing import List

SYNC = b"\x00" + b"\xff" * 10 + b"\x00"


def to_mode1_2352(image: bytes) -> bytes:
    out = bytearray()
    n = (len(image) + 2047) // 2048
    for i in range(n):
        chunk = image[i * 2048:(i + 1) * 2048]
        chunk = chunk + bytes(2048 - len(chunk))
        lba = i + 150
        out += SYNC + (lba & 0xFFFFFF).to_bytes(3, "big") + b"\x01" + chunk + bytes((i * 7 + j) & 0xFF for j in range(288))
    return bytes(out)


def to_mdx(image: bytes) -> bytes:
    hdr = b"MEDIA DESCRIPTOR" + b"\x02\x01" + b"\xa9" + b" " * 25 + b"\xff" * 4 + (64 + len(image)).to_bytes(8, "little") + bytes(8)
    assert len(hdr) == 64
    return hdr + image


def cue_text(bin_name: str, mode: str) -> List[str]:
    return [f'FILE "{bin_name}" BINARY\n', f"  TRACK 01 {mode}\n", "    INDEX 01 00:00:00\n"]


def write_all(image: bytes, work: str) -> dict:
    """writes the five encodings; returns {encoding: path to hand to the tool}"""
    os.makedirs(work, exist_ok=True)
    paths = {}
    def w(name, data, mode="wb"):
        p = os.path.join(work, name)
        with open(p, mode) as fh:
            fh.write(data)
        return p
    paths["raw"] = w("raw.img", image)
    paths["mdf"] = w("sectors.mdf", to_mode1_2352(image))
    paths["mdx"] = w("wrapped.mdx", to_mdx(image))
    w("cr.bin", image)
    paths["cue_raw"] = w("cr.cue", "".join(cue_text("cr.bin", "MODE1/2048")), "w")
    w("cm.bin", to_mode1_2352(image))
    paths["cue_mdf"] = w("cm.cue", "".join(cue_text("cm.bin", "MODE1/2352")), "w")
    # mixed-mode discs: a data track followed by audio tracks is still a sampler image
    audio = ["  TRACK 02 AUDIO\n", '    TITLE "Bonus"\n', "    INDEX 00 00:02:00\n", "    INDEX 01 00:04:00\n"]
    w("xr.bin", image)
    # ... written the way ripping tools write it: disc-level lines in front of FILE
    head = ['REM GENRE "Sampling CD"\n', "REM DATE 1994\n", "CATALOG 0000000000000\n", 'PERFORMER "Various"\n', 'TITLE "Sound Library Vol. 1"\n']
    # ... with titles and performers that mention the sheet's own keywords (a TITLE is text, not a command)
    wordy = ["  TRACK 02 AUDIO\n", '    TITLE "Bonus Track 2 Live"\n', '    PERFORMER "The Index 01 File"\n', "    INDEX 00 00:02:00\n", "    INDEX 01 00:04:00\n"]
    paths["cue_raw_mixed"] = w("XR.CUE", "".join(head + cue_text("xr.bin", "MODE1/2048") + wordy), "w")      # recognition is by content, not by name
    w("xm.bin", to_mode1_2352(image))
    # ... and with lower-case keywords and CR LF line ends
    lines = cue_text("xm.bin", "MODE1/2352") + audio + ["  TRACK 03 AUDIO\n", "    INDEX 01 00:09:00\n"]
    lines = [l.replace("FILE", "file").replace("TRACK", "track").replace("INDEX", "index").replace("BINARY", "binary").replace("\n", "\r\n") for l in lines]
    paths["cue_mdf_mixed"] = w("xm.cue.txt", "".join(lines).encode("ascii"))
    return paths
