"""Serialise records from the layout tables of spec/Headers.tla (dumped by tools/dump_layouts.py)."""
from __future__ import annotations

import json
import os
from typing import Any, Dict

_HERE = os.path.dirname(os.path.abspath(__file__))
with open(os.path.join(_HERE, "layouts.json")) as fh:
    _D = json.load(fh)
LAYOUTS: Dict[str, list] = _D["layouts"]
ROLAND_AREAS: Dict[str, int] = _D["roland_areas"]

_AKAI = {**{chr(ord("0") + i): i for i in range(10)}, " ": 10,
         **{chr(ord("A") + i): 11 + i for i in range(26)}, "#": 37, "+": 38, "-": 39, ".": 40}


def akai_bytes(s: str, n: int) -> bytes:
    b = bytes(_AKAI[c] for c in s.upper())
    return (b + bytes([10]) * n)[:n]


def size_of(layout: str) -> int:
    last = LAYOUTS[layout][-1]
    return last["off"] + last["width"]


def pack(layout: str, values: Dict[str, Any]) -> bytes:
    out = bytearray(size_of(layout))
    for f in LAYOUTS[layout]:
        name, off, w, kind = f["name"], f["off"], f["width"], f["kind"]
        v = values.get(name)
        if kind == "pad":
            b = bytes(w) if v is None else bytes(v)
        elif kind == "padff":
            b = b"\xff" * w if v is None else bytes(v)
        elif kind in ("u8", "u16", "u24", "u32"):
            b = int(v or 0).to_bytes(w, "little", signed=False)
        elif kind in ("s8", "s16"):
            b = int(v or 0).to_bytes(w, "little", signed=True)
        elif kind == "akai":
            b = v if isinstance(v, (bytes, bytearray)) else akai_bytes(v or "", w)
        elif kind == "ascii":
            b = v if isinstance(v, (bytes, bytearray)) else (v or "").encode("latin-1")
            b = (bytes(b) + bytes(w))[:w]
        elif kind == "bytes":
            b = bytes(v) if v is not None else bytes(w)
            if len(b) != w:
                raise ValueError(f"{layout}.{name}: need {w} bytes, got {len(b)}")
        else:
            raise ValueError(kind)
        if len(b) != w:
            raise ValueError(f"{layout}.{name}: width {w} vs {len(b)}")
        out[off:off + w] = b
    return bytes(out)


def field(layout: str, name: str):
    for f in LAYOUTS[layout]:
        if f["name"] == name:
            return f
    raise KeyError(name)
