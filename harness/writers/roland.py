"""Independent Roland S-7xx image writer (layouts from Headers.tla, case from RolandImage.tla).
Metadata areas are zero-filled, data clusters carry PRNG bytes keyed by (seed, cluster)."""
from __future__ import annotations

import random
import struct
from typing import Any, Dict, List, Optional

from .fields import pack, ROLAND_AREAS as A

FT = {"volume": 0x40, "performance": 0x41, "patch": 0x42, "partial": 0x43, "sample": 0x44}


def s16list(vals: List[int], n: int) -> bytes:
    v = list(vals) + [-1] * (n - len(vals))
    return struct.pack(f"<{n}h", *v)


def id_area(img, overrides=None) -> bytes:
    vals = dict(revision=1, s7xx_str="S770 MR25A", empty_str="", version_str="S-770 Hard Disk Ver. 1.00",
                copyright_str="Copyright Roland", disk_name="VERIF DISK", disk_capacity=0,
                num_volumes=len(img["vols"]), num_performances=len(img["perfs"]), num_patches=len(img["patches"]),
                num_partials=len(img["partials"]), num_samples=len(img["samples"]))
    vals.update(overrides or {})
    return pack("roland_id_area", vals)


def cluster_bytes(seed: int, k: int, C: int) -> bytes:
    return random.Random(f"r{seed}/{k}").randbytes(C)


def put(buf: bytearray, off: int, b: bytes):
    buf[off:off + len(b)] = b


def partial_sample(sel: int, extra=None) -> bytes:
    v = dict(sample_selection=sel, pitch_kf=0, sample_level=127, pan=0, coarse_tune=0, fine_tune=0,
             smt_velocity_lower=0, smt_fade_with_lower=0, smt_velocity_upper=127, smt_fade_with_upper=0)
    v.update(extra or {})
    return pack("roland_partial_sample", v)


def sample_param(s: Dict[str, Any]) -> bytes:
    fines = s.get("fines", [0] * 5)
    pts = [(a << 8) | f for a, f in zip(s["pts"], fines)]
    v = dict(name=s.get("param_name", s["name"]), start_sample=pts[0], sustain_loop_start=pts[1], sustain_loop_end=pts[2],
             release_loop_start=pts[3], release_loop_end=pts[4], loop_mode=s["mode"],
             sustain_loop_enable=s.get("sle", 1), sustain_loop_tune=s.get("slt", 0), release_loop_tune=s.get("rlt", 0),
             cluster_top=s["ctop"], num_clusters=len(s["chain"]),
             sample_options=((s.get("smode", 0) & 15) << 4) | (s["freq"] & 15), original_key=s.get("key", 60))
    return pack("roland_sample_param", v)


def build_image(case: Dict[str, Any], seed: int = 0, overrides: Optional[Dict[str, Any]] = None) -> bytes:
    C, ncl = case["C"], case["nclusters"]
    img = case["img"]
    assert C == A["cluster"]
    size = A["data_fat"] + ncl * C
    buf = bytearray(size)
    for k in range(2, ncl):
        put(buf, A["data_fat"] + k * C, cluster_bytes(seed, k, C))
    put(buf, 0, id_area(img, (overrides or {}).get("id")))
    fat = [0] * A["fat_entries"]
    fat[0] = 0xFFFA
    fat[1] = 0
    for c, w in case["fat"]:
        fat[c] = w
    # word 1: the clusters that are not allocated, as a real disk carries it (the decoder must not depend on it)
    fat[1] = img.get("unused_count", (len(fat) - 2) - sum(1 for w in fat[2:len(fat) - 9] if w != 0)) & 0xFFFF
    fat[-2] = 0xFFFF if img.get("fatver", 1) == 1 else 0xFFFE
    fat[-1] = 0xFFFF
    put(buf, A["fat"], struct.pack(f"<{len(fat)}H", *fat))

    spread = bool(img.get("spread"))
    sl = (lambda k: k if (not spread or k == 0) else k + 4)      # logical number -> record index

    def dirent(kind, i, name, fat_entry=0, ncl_=0):
        put(buf, A[f"{kind}_dir"] + 32 * i,
            pack("roland_dir_entry", dict(name=name, file_type=FT[kind], file_attributes=0, forward_link_ptr=0,
                                          backward_link_ptr=0, link_id=0, reserved=0, fat_entry=fat_entry, num_clusters=ncl_)))
    for i, v in enumerate(img["vols"]):
        dirent("volume", i, v["name"])
        put(buf, A["volume_param"] + 0x100 * i,
            pack("roland_volume_param", dict(name=v["name"], performance_ptrs=s16list(sorted(sl(x) for x in v["perfs"]), 64))))
    for i0, p in enumerate(img["perfs"]):
        i = sl(i0)
        dirent("performance", i, p["name"])
        put(buf, A["performance_param"] + 0x200 * i,
            pack("roland_performance_param", dict(name=p["name"], patch_list=s16list(sorted(sl(x) for x in p["patches"]), 32),
                                                  **{k: bytes(n) for k, n in (("parts_patch_selection", 32), ("midi_channel_data", 16),
                                                     ("parts_level", 32), ("parts_zone_lower", 32), ("parts_zone_upper", 32),
                                                     ("parts_fade_width_lower", 32), ("parts_fade_width_upper", 32),
                                                     ("velocity_curve_type_data", 16))})))
    for i0, p in enumerate(img["patches"]):
        i = sl(i0)
        dirent("patch", i, p["name"])
        plist = sorted(sl(x) for x in p["partials"])
        keys = [plist[k % len(plist)] for k in range(88)] if p.get("spread", True) else plist
        put(buf, A["patch_param"] + 0x200 * i,
            pack("roland_patch_param", dict(name=p["name"], partial_list=s16list(keys, 88),
                                            keys_partial_selection=bytes(88), keys_assign_type=bytes(88), bender=bytes(4),
                                            after_touch=bytes(7), modulation=bytes(4), controller=bytes(8))))
    for i0, p in enumerate(img["partials"]):
        i = sl(i0)
        dirent("partial", i, p["name"])
        refs = [sl(x) for x in p["refs"]]
        if spread and len(refs) == 2:
            refs = [refs[0], -1, refs[1]]                      # an unused slot between two used ones
        refs = refs + [-1] * (4 - len(refs))
        put(buf, A["partial_param"] + 0x80 * i,
            pack("roland_partial_param", dict(name=p["name"], sample_1=partial_sample(refs[0]), sample_2=partial_sample(refs[1]),
                                              sample_3=partial_sample(refs[2]), sample_4=partial_sample(refs[3]),
                                              tvf=bytes(21), tva=bytes(16), lfo_generator=bytes(9))))
    for i0, s in enumerate(img["samples"]):
        i = sl(i0)
        dirent("sample", i, s["name"], s["chain"][0], len(s["chain"]))
        put(buf, A["sample_param"] + 0x30 * i, sample_param(s))
    return bytes(buf)


def read_extents(image: bytes, case: Dict[str, Any], extents: List[Dict[str, int]], reversed_: bool) -> bytes:
    C = case["C"]
    b = b"".join(image[A["data_fat"] + e["cluster"] * C + e["off"]: A["data_fat"] + e["cluster"] * C + e["off"] + e["len"]]
                 for e in extents)
    if reversed_:
        b = b"".join(b[i:i + 2] for i in range(len(b) - 2, -1, -2))
    return b
