#!/bin/sh
# Offline set-up: nothing to build; verify the tools the checks need are present and the specs parse.
set -e
cd "$(dirname "$0")"
command -v java >/dev/null
test -f /opt/veriftools/tla/tla2tools.jar
/venv/bin/python -c "import construct, numpy"
mkdir -p evidence replays
/venv/bin/python tools/dump_layouts.py
echo "setup ok"
