----------------------------- MODULE AkaiImage -----------------------------
(***************************************************************************)
(* AKAI S1000/S3000 disc image: logical model -> physical layout ->        *)
(* expected export.                                                        *)
(*                                                                         *)
(*   akai/image.py      partitions back to back, named A, B, ...           *)
(*   akai/partition.py  header (202 bytes) + 100 volume entries + SAT      *)
(*                      (T 16-bit words) = FirstData sectors; the rest of  *)
(*                      the partition is data sectors of S bytes           *)
(*   akai/volume.py, file_entry.py   file table = chain of sectors holding *)
(*                      24-byte entries, ended by the 0xD747 marker;       *)
(*                      entries with start sector 0 are skipped            *)
(*   akai/sample.py     H-byte sample header, then 16-bit words; the       *)
(*                      exported window is [play_start, play_end)          *)
(*                                                                         *)
(* An image is built by actions (NewPartition / NewVolume / NewFile /      *)
(* Finish).  In "exhaustive" mode (tiny S, H, T) every injective placement *)
(* and ordering of every chain is explored; in "classes" mode (real        *)
(* constants) chains are drawn from allocation classes over the lowest     *)
(* free sectors.  Every finished image is one CASE: the writer of the      *)
(* harness serialises it; Expected(img) is what `export` must produce.     *)
(***************************************************************************)
EXTENDS Integers, Sequences, FiniteSets, TLC, Json

CONSTANTS S,            \* sector size in bytes
          H,            \* sample header size in bytes
          T,            \* number of SAT entries
          FirstData,    \* first data sector (sectors below hold header, volume entries, SAT)
          NSect,        \* sectors per partition (size field)
          Mode,         \* "exhaustive" | "classes"
          MaxParts, MaxVols, MaxFiles, MaxChain,
          Rates,        \* set of stored sample rates
          Inverted,     \* "classes" mode: TRUE = within a volume every file is allocated physically IN FRONT of the files
                        \* listed before it (directory order is the reverse of allocation order)
          EmitCases

VARIABLES img, done, goal      \* goal: the shape (partitions, volumes per partition, files per volume) being built
vars == <<img, done, goal>>

EOFW == 49152
RESW == 16384
RESW2 == 32768

Min(a, b) == IF a < b THEN a ELSE b

\* ---- helpers over partitions ----------------------------------------------------
RangeOf(s) == {s[k] : k \in 1..Len(s)}
VF(part) == UNION {{<<v, f>> : f \in 1..Len(part.vols[v].files)} : v \in 1..Len(part.vols)}
FileAt(part, vf) == part.vols[vf[1]].files[vf[2]]
UsedOf(part) ==
  UNION ({RangeOf(part.vols[v].dir) : v \in 1..Len(part.vols)}
         \cup {RangeOf(FileAt(part, vf).chain) : vf \in VF(part)}
         \cup {part.spacers})
FreeOf(part) == (FirstData..(NSect - 1)) \ UsedOf(part)

\* k-th lowest element of a finite set of naturals
RECURSIVE Kth(_, _)
Kth(set, k) == LET m == CHOOSE x \in set : \A y \in set : x <= y IN
               IF k = 1 THEN m ELSE Kth(set \ {m}, k - 1)

RECURSIVE InjSeqs(_, _)
InjSeqs(set, n) == IF n = 0 THEN {<<>>}
                   ELSE UNION {{Append(q, x) : x \in set \ RangeOf(q)} : q \in InjSeqs(set, n - 1)}

\* allocation classes over the sorted free list F1 < F2 < ... (index patterns)
Patterns(n) ==
  CASE n = 1 -> {<<1>>, <<2>>}
    [] n = 2 -> {<<1, 2>>, <<2, 1>>, <<1, 3>>}
    [] n = 3 -> {<<1, 2, 3>>, <<3, 2, 1>>, <<2, 3, 1>>, <<1, 4, 2>>}
    [] OTHER -> {[k \in 1..n |-> k], [k \in 1..n |-> n + 1 - k], [k \in 1..n |-> IF k = n THEN 1 ELSE k + 1]}

ChainCandidates(part, n) ==
  LET free == FreeOf(part) IN
  IF Mode = "exhaustive" THEN InjSeqs(free, n)
  ELSE IF Cardinality(free) < n + 2 THEN {}
  ELSE {[k \in 1..n |-> Kth(free, p[k])] : p \in Patterns(n)}
\* the same classes shifted up the sorted free list by `off` entries (room is left below for the files that follow)
ChainCandidatesOff(part, n, off) ==
  LET free == FreeOf(part) IN
  IF Cardinality(free) < n + 2 + off THEN {}
  ELSE {[k \in 1..n |-> Kth(free, p[k] + off)] : p \in Patterns(n)}

\* a run-style directory: consecutive sectors above everything used, separated from another
\* reserved run by at least one non-reserved sector (the property defines a directory area as a RUN)
MaxUsed(part) == LET u == UsedOf(part) \cup {FirstData - 1} IN CHOOSE x \in u : \A y \in u : y <= x
IsRunSector(part, x) == \E v \in 1..Len(part.vols) : part.vols[v].dirstyle # "chain" /\ x \in RangeOf(part.vols[v].dir)
RunStart(part) == LET m == MaxUsed(part) IN IF IsRunSector(part, m) \/ (m < FirstData /\ part.sys # 0) THEN m + 2 ELSE m + 1

\* ---- SAT ---------------------------------------------------------------------------
ChainWords(ch) == [k \in 1..Len(ch) |-> <<ch[k], IF k = Len(ch) THEN EOFW ELSE ch[k + 1]>>]
SatPairs(part) ==
  UNION ({ IF part.vols[v].dirstyle = "chain" THEN RangeOf(ChainWords(part.vols[v].dir))
           ELSE {<<x, IF part.vols[v].dirstyle = "run" THEN RESW ELSE RESW2>> : x \in RangeOf(part.vols[v].dir)}
           : v \in 1..Len(part.vols)}
         \cup {RangeOf(ChainWords(FileAt(part, vf).chain)) : vf \in VF(part)}
         \cup {{<<x, part.sys>> : x \in 0..(FirstData - 1)}})
SatWord(part, x) == IF \E pr \in SatPairs(part) : pr[1] = x
                    THEN (CHOOSE pr \in SatPairs(part) : pr[1] = x)[2] ELSE 0
SatTable(part) == [k \in 1..T |-> SatWord(part, k - 1)]

\* ---- expected export -----------------------------------------------------------------
\* physical extents of the logical byte range [a, b) of a chained file
RECURSIVE ExtentsRec(_, _, _, _)
ExtentsRec(ch, a, b, acc) ==
  IF a >= b THEN acc
  ELSE LET idx == a \div S   off == a % S   n == Min(S - off, b - a)
       IN ExtentsRec(ch, a + n, b, Append(acc, [sector |-> ch[idx + 1], off |-> off, len |-> n]))
Extents(file) == ExtentsRec(file.chain, H + 2 * file.ps, H + 2 * file.pe, <<>>)

IsSample(file) == file.ftype \in {115, 243}         \* 0x73 S1000 sample, 0xF3 S3000 sample
PartName(p) == <<"A", "B", "C", "D">>[p]

ExpectedVol(p, part, vol) ==
  LET idxs == {f \in 1..Len(vol.files) : IsSample(vol.files[f])}
      isL(f) == vol.files[f].pair = "L"
      isR(f) == vol.files[f].pair = "R"
      partner(f) == CHOOSE g \in idxs : vol.files[g].pair = "R" /\ vol.files[g].stem = vol.files[f].stem
  IN  { [path |-> <<PartName(p), vol.name, vol.files[f].name>>,
         rate |-> IF vol.files[f].rate = 0 THEN 44100 ELSE vol.files[f].rate,
         channels |-> << [part |-> p, extents |-> Extents(vol.files[f])] >>] : f \in {g \in idxs : vol.files[g].pair = ""} }
      \cup
      { [path |-> <<PartName(p), vol.name, vol.files[f].stem>>,
         rate |-> IF vol.files[f].rate = 0 THEN 44100 ELSE vol.files[f].rate,
         channels |-> << [part |-> p, extents |-> Extents(vol.files[f])],
                         [part |-> p, extents |-> Extents(vol.files[partner(f)])] >>] : f \in {g \in idxs : isL(g)} }

Expected(im) == UNION {UNION {ExpectedVol(p, im.parts[p], im.parts[p].vols[v]) : v \in 1..Len(im.parts[p].vols)}
                       : p \in 1..Len(im.parts)}

\* ---- actions ----------------------------------------------------------------------------
Init == /\ img = [parts |-> <<>>] /\ done = FALSE
        /\ goal \in [parts : 1..MaxParts, vols : 1..MaxVols, files : 1..MaxFiles]

CurP == Len(img.parts)
CurPart == img.parts[CurP]
CurV == Len(CurPart.vols)

NewPartition ==
  /\ ~done /\ CurP < goal.parts
  /\ CurP > 0 => (Len(CurPart.vols) = goal.vols /\ Len(CurPart.vols[CurV].files) = goal.files)
  /\ \E sys \in {0, RESW}, volgap \in (IF Mode = "exhaustive" THEN {FALSE} ELSE BOOLEAN) :
       \* volgap: inactive volume entries between the active ones (volume k sits in entry 2k+1 of the 100-entry table)
       img' = [img EXCEPT !.parts = Append(@, [vols |-> <<>>, sys |-> sys, spacers |-> {}, volgap |-> volgap])]
  /\ UNCHANGED <<done, goal>>

\* plain names (what `ls` and `export` print unchanged) that between them use every letter and digit of the AKAI character set
VolNames == <<"VOL 19 NET", "V2 JAZZ QX", "DRUMS 03">>
NewVolume ==
  /\ ~done /\ CurP > 0 /\ Len(CurPart.vols) < goal.vols
  /\ Len(CurPart.vols) > 0 => Len(CurPart.vols[CurV].files) = goal.files
  /\ \E style \in (IF Mode = "exhaustive" THEN {"chain", "run"} ELSE {"chain", "run", "run2"}),
        n \in (IF Mode = "exhaustive" THEN {1} ELSE {1, 2}),
        vt \in (IF Mode = "exhaustive" THEN {1} ELSE {1, 3}),
        blanks \in ({0} \cup (IF S >= 48 THEN {(S \div 24) - 1} ELSE {})),
        keepfree \in BOOLEAN,          \* the sector right behind a reserved run stays free (never allocated later)
        late \in (IF Mode = "exhaustive" THEN {FALSE} ELSE BOOLEAN) :    \* the directory lies at the top of the free space, BEHIND the data of its files
       /\ (keepfree => style # "chain") /\ (late => style = "chain")
       /\ n = 1 => blanks = 0            \* blank entries push real entries across the sector boundary of a 2-sector table
       /\ LET free == FreeOf(CurPart)
              cands == IF late THEN (IF Cardinality(free) >= n + 2 + MaxChain * goal.files
                                     THEN {[k \in 1..n |-> Kth(free, Cardinality(free) - n + k)]} ELSE {})
                       ELSE IF style = "chain" THEN ChainCandidates(CurPart, n)
                       ELSE IF RunStart(CurPart) + n <= NSect THEN {[k \in 1..n |-> RunStart(CurPart) + k - 1]} ELSE {}
          IN \E d \in cands :
               img' = [img EXCEPT !.parts[CurP].vols = Append(@,
                          [name |-> VolNames[Len(CurPart.vols) + 1], vtype |-> vt, dir |-> d, dirstyle |-> style,
                           blanks |-> blanks, files |-> <<>>]),
                        !.parts[CurP].spacers = IF keepfree /\ d[Len(d)] + 1 < NSect THEN @ \cup {d[Len(d)] + 1} ELSE @]
  /\ UNCHANGED <<done, goal>>

FileNames == <<"S1 FGHW", "KICK 2", "PAD#3", "X4 BY 5678">>
WordChoices(cap) == IF Mode = "exhaustive" THEN 0..cap
                    ELSE {cap, cap - 1, cap - (S \div 4), 10} \cap (0..cap)
MarkerChoices(cnt) == IF Mode = "exhaustive" THEN {<<a, b>> : a \in 0..cnt, b \in 0..cnt} \cap {m \in (0..cnt) \X (0..cnt) : m[1] <= m[2]}
                      ELSE {<<0, cnt>>, <<cnt \div 3, cnt - (cnt \div 4)>>, <<cnt \div 2, cnt \div 2>>, <<1, cnt>>} \cap {m \in (0..cnt) \X (0..cnt) : m[1] <= m[2]}

AddFile(name, ftype, ch, cnt, ps, pe, rate, pair) ==
  img' = [img EXCEPT !.parts[CurP].vols[CurV].files = Append(@,
             [name |-> name, stem |-> "", ftype |-> ftype, chain |-> ch, cnt |-> cnt, ps |-> ps, pe |-> pe, rate |-> rate, pair |-> pair])]

NewFile ==
  /\ ~done /\ CurP > 0 /\ CurV > 0 /\ Len(CurPart.vols[CurV].files) < goal.files
  /\ \E n \in 1..MaxChain, ftype \in (IF Mode = "exhaustive" THEN {243} ELSE {115, 243}), rate \in Rates :
       \E ch \in (IF Inverted /\ Mode = "classes"
                  THEN {c \in ChainCandidatesOff(CurPart, n, MaxChain * (goal.files - Len(CurPart.vols[CurV].files) - 1)) :
                          \A f \in 1..Len(CurPart.vols[CurV].files) : \A x \in RangeOf(c), y \in RangeOf(CurPart.vols[CurV].files[f].chain) : x < y}
                  ELSE ChainCandidates(CurPart, n)) :
          LET cap == (n * S - H) \div 2 IN
          \E cnt \in WordChoices(cap) : \E m \in MarkerChoices(cnt) :
             AddFile(FileNames[Len(CurPart.vols[CurV].files) + 1], ftype, ch, cnt, m[1], m[2], rate, "")
  /\ UNCHANGED <<done, goal>>

\* a file that is not a sample: a program (0x70 / 0xF0; the writer stores a valid program) or a type the tool has no
\* parser for (0x64 drum settings, random content).  Such files are listed but never exported.
NewOther ==
  /\ ~done /\ Mode = "classes" /\ CurP > 0 /\ CurV > 0 /\ Len(CurPart.vols[CurV].files) < goal.files
  /\ \E ftype \in {112, 240, 100} : \E ch \in ChainCandidates(CurPart, 1) :
       AddFile(IF ftype = 100 THEN "DRM 1" ELSE "PROG " \o FileNames[Len(CurPart.vols[CurV].files) + 1], ftype, ch, 300, 0, 0, 0, "")
  /\ UNCHANGED <<done, goal>>

\* a left/right pair: two files of equal length named <stem>-L / <stem>-R, in either directory order
NewPair ==
  /\ ~done /\ Mode = "classes" /\ CurP > 0 /\ CurV > 0 /\ Len(CurPart.vols[CurV].files) + 2 <= goal.files
  /\ \E n \in 1..MaxChain, order \in {"LR", "RL"}, rate \in Rates :
       \E ch1 \in ChainCandidates(CurPart, n) :
          LET part1 == [CurPart EXCEPT !.spacers = @ \cup RangeOf(ch1)] IN
          \E ch2 \in ChainCandidates(part1, n) :
            LET cap == (n * S - H) \div 2
                stem == FileNames[Len(CurPart.vols[CurV].files) + 1]
                fl == [name |-> stem \o "-L", stem |-> stem, ftype |-> 243, chain |-> ch1, cnt |-> cap, ps |-> 0, pe |-> cap, rate |-> rate, pair |-> "L"]
                fr == [name |-> stem \o "-R", stem |-> stem, ftype |-> 243, chain |-> ch2, cnt |-> cap, ps |-> 0, pe |-> cap, rate |-> rate, pair |-> "R"]
            IN img' = [img EXCEPT !.parts[CurP].vols[CurV].files =
                         @ \o (IF order = "LR" THEN <<fl, fr>> ELSE <<fr, fl>>)]
  /\ UNCHANGED <<done, goal>>

Finish ==
  /\ ~done /\ CurP = goal.parts /\ CurV = goal.vols /\ Len(CurPart.vols[CurV].files) = goal.files
  /\ done' = TRUE /\ UNCHANGED <<img, goal>>

Next == NewPartition \/ NewVolume \/ NewFile \/ NewOther \/ NewPair \/ Finish
Spec == Init /\ [][Next]_vars

\* ---- design properties ----------------------------------------------------------------------
AllChains(part) == {part.vols[v].dir : v \in 1..Len(part.vols)}
                   \cup {FileAt(part, vf).chain : vf \in VF(part)}

\* the layout is a layout: chains are disjoint, injective, inside the partition
LayoutSane ==
  \A p \in 1..Len(img.parts) :
     LET part == img.parts[p] IN
     /\ \A c \in AllChains(part) : Cardinality(RangeOf(c)) = Len(c) /\ RangeOf(c) \subseteq FirstData..(NSect - 1)
     /\ \A c1, c2 \in AllChains(part) : c1 # c2 => RangeOf(c1) \cap RangeOf(c2) = {}

\* the decoder of AllocTable.tla applied to the encoded SAT returns every chain, in order
AT == INSTANCE AllocTable WITH N <- T, Kind <- "akai", Alphabet <- {}, Lo <- 0, Hi <- 0,
         SatInstallOnVisited <- TRUE, SatInstallAtTableEnd <- TRUE, PathGuardIncrements <- TRUE,
         RolandWalkBounded <- TRUE, EmitCases <- FALSE, Stride <- 1, Phase <- 0, tbl <- <<>>
DecodeOfEncodeIsChain ==
  (T <= 16) =>
  \A p \in 1..Len(img.parts) :
     LET part == img.parts[p]
         d == AT!AkaiDecode(SatTable(part))
     IN \A c \in AllChains(part) : AT!GetPath(d.sl, c[1]) = [kind |-> "path", path |-> c]

\* extents tile the marker window: contiguous, in chain order, inside sectors, right total
ExtentsTileWindow ==
  \A p \in 1..Len(img.parts) : \A v \in 1..Len(img.parts[p].vols) : \A f \in 1..Len(img.parts[p].vols[v].files) :
     LET file == img.parts[p].vols[v].files[f]
         ex == Extents(file)
         RECURSIVE Sum(_)
         Sum(k) == IF k = 0 THEN 0 ELSE Sum(k - 1) + ex[k].len
     IN /\ Sum(Len(ex)) = 2 * (file.pe - file.ps)
        /\ \A k \in 1..Len(ex) :
             /\ ex[k].len > 0 /\ ex[k].off + ex[k].len <= S
             /\ ex[k].sector = file.chain[(H + 2 * file.ps + Sum(k - 1)) \div S + 1]
             /\ ex[k].off = (H + 2 * file.ps + Sum(k - 1)) % S
        /\ H + 2 * file.cnt <= Len(file.chain) * S

OneWavPerSampleOrPair ==
  done => \A p \in 1..Len(img.parts) : \A v \in 1..Len(img.parts[p].vols) :
     LET vol == img.parts[p].vols[v]
         n == Cardinality({f \in 1..Len(vol.files) : IsSample(vol.files[f])})
         pairs == Cardinality({f \in 1..Len(vol.files) : vol.files[f].pair = "L"})
     IN Cardinality(ExpectedVol(p, img.parts[p], vol)) = n - pairs

\* ---- truncation (C15) --------------------------------------------------------------------
\* absolute image offset just behind the last byte an exported file depends on: the partition head (header, volume
\* entries, SAT), its volume's file table up to and including the end marker, and per channel the sample header and
\* the data extents.  A file whose Need <= cut lies entirely before the cut and must be exported complete.
Max2(a, b) == IF a > b THEN a ELSE b
RECURSIVE MaxOfSeq(_, _)
MaxOfSeq(sq, k) == IF k = 0 THEN 0 ELSE Max2(sq[k], MaxOfSeq(sq, k - 1))
PartBase(p) == (p - 1) * NSect * S
TableNeed(p, vol) ==
  LET bytes == (vol.blanks + Len(vol.files)) * 24 + 10          \* through the end-marker word of the closing entry
      nsec == (bytes + S - 1) \div S
      last == bytes - (nsec - 1) * S
  IN MaxOfSeq([k \in 1..nsec |-> PartBase(p) + vol.dir[k] * S + (IF k = nsec THEN last ELSE S)], nsec)
FileNeed(p, file) ==
  LET ex == Extents(file) IN
  Max2(PartBase(p) + file.chain[1] * S + H,
       MaxOfSeq([k \in 1..Len(ex) |-> PartBase(p) + ex[k].sector * S + ex[k].off + ex[k].len], Len(ex)))
NeedOfVol(p, vol) ==
  LET idxs == {f \in 1..Len(vol.files) : IsSample(vol.files[f])} IN
  {[path |-> <<PartName(p), vol.name, IF vol.files[f].pair = "" THEN vol.files[f].name ELSE vol.files[f].stem>>,
    need |-> Max2(Max2(PartBase(p) + FirstData * S - 2, TableNeed(p, vol)),
                  IF vol.files[f].pair = "" THEN FileNeed(p, vol.files[f])
                  ELSE MaxOfSeq([g \in 1..Len(vol.files) |-> IF vol.files[g].stem = vol.files[f].stem THEN FileNeed(p, vol.files[g]) ELSE 0], Len(vol.files)))]
   : f \in idxs}
Needs(im) == UNION {UNION {NeedOfVol(p, im.parts[p].vols[v]) : v \in 1..Len(im.parts[p].vols)} : p \in 1..Len(im.parts)}
\* cut points: every sector boundary and its neighbours, and points inside the header, the SAT, each directory
\* sector, each sample header and each data extent
Cuts(im) ==
  LET total == Len(im.parts) * NSect * S
      bounds == {k * S : k \in 0..(Len(im.parts) * NSect)}
      inner == UNION {{PartBase(p) + 100, PartBase(p) + 2000}
                      \cup UNION {{PartBase(p) + im.parts[p].vols[v].dir[1] * S + 30} : v \in 1..Len(im.parts[p].vols)}
                      \cup UNION {{PartBase(p) + FileAt(im.parts[p], vf).chain[1] * S + 70,
                                   PartBase(p) + FileAt(im.parts[p], vf).chain[Len(FileAt(im.parts[p], vf).chain)] * S + (S \div 2) + 1}
                                  : vf \in VF(im.parts[p])}
                      : p \in 1..Len(im.parts)}
  IN {c \in bounds \cup {b - 1 : b \in bounds} \cup {b + 1 : b \in bounds} \cup inner : c >= 0 /\ c <= total}
\* the cuts that fall inside structures (header, SAT, directory, sample headers, last data sectors)
InnerCuts(im) ==
  UNION {{PartBase(p) + 100, PartBase(p) + 2000}
         \cup UNION {{PartBase(p) + im.parts[p].vols[v].dir[1] * S + 30} : v \in 1..Len(im.parts[p].vols)}
         \cup UNION {{PartBase(p) + FileAt(im.parts[p], vf).chain[1] * S + 1, PartBase(p) + FileAt(im.parts[p], vf).chain[1] * S + 70,
                      PartBase(p) + FileAt(im.parts[p], vf).chain[Len(FileAt(im.parts[p], vf).chain)] * S + (S \div 2) + 1}
                     : vf \in VF(im.parts[p])}
         : p \in 1..Len(im.parts)}
\* every byte position inside one record of each kind of table, so that a cut falls inside every field of it and on
\* every field boundary: the partition head's size word and first volume entries (16 bytes each), the first SAT words,
\* the first two entries of every file table (24 bytes each) and the whole header of every volume's first file
FieldCuts(im) ==
  UNION {{PartBase(p) + k : k \in 0..50} \cup {PartBase(p) + 2 + 100 * 16 + k : k \in 0..8}
         \cup UNION {{PartBase(p) + im.parts[p].vols[v].dir[1] * S + k : k \in 0..48} : v \in 1..Len(im.parts[p].vols)}
         \cup UNION {{PartBase(p) + im.parts[p].vols[v].files[1].chain[1] * S + k : k \in 0..H}
                     : v \in {w \in 1..Len(im.parts[p].vols) : im.parts[p].vols[w].files # <<>>}}
         : p \in 1..Len(im.parts)}
NeedsWithinImage == done => \A n \in Needs(img) : n.need <= Len(img.parts) * NSect * S

Emit ==
  (EmitCases /\ done) =>
     PrintT(<<"CASE", ToJson([S |-> S, H |-> H, T |-> T, nsect |-> NSect, first |-> FirstData,
                              parts |-> [p \in 1..Len(img.parts) |->
                                           [vols |-> img.parts[p].vols, sys |-> img.parts[p].sys, volgap |-> img.parts[p].volgap,
                                            sat |-> {pr \in SatPairs(img.parts[p]) : pr[2] # 0}]],
                              expected |-> Expected(img), needs |-> Needs(img), cuts |-> Cuts(img) \cup InnerCuts(img), inner_cuts |-> InnerCuts(img), field_cuts |-> FieldCuts(img)])>>)
=============================================================================
