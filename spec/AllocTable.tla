---------------------------- MODULE AllocTable ----------------------------
(***************************************************************************)
(* Allocation tables of smpl_extract.                                      *)
(*                                                                         *)
(*  - AKAI segment allocation table decoder                                *)
(*      smpl_extract/akai/sat.py  SegmentAllocationTableAdapter._decode    *)
(*  - Roland S-7xx FAT decoder                                             *)
(*      smpl_extract/roland/s7xx/fat.py  FatAreaAdapter._decode            *)
(*  - chain resolution   smpl_extract/util/fat.py  get_path,               *)
(*      add_to_sector_links, RolandFileAllocationTable.get_file            *)
(*                                                                         *)
(* The decoders are transcribed loop iteration by loop iteration as        *)
(* recursive operators (one recursion step = one iteration of the code's   *)
(* inner `while`), so that a whole decode is ONE step of the state machine *)
(* below and exhaustive enumeration of all tables stays cheap.  The        *)
(* step-wise form used for termination (lassos) is in AllocWalk.tla.       *)
(*                                                                         *)
(* Tables are built word by word (action Extend) so that TLC's workers     *)
(* share the enumeration; every complete table is one CASE for replay.     *)
(*                                                                         *)
(* Named deviations (boolean constants; TRUE = intended behaviour):        *)
(*   SatInstallOnVisited   D2  walk reaching an already resolved sector    *)
(*                             keeps its links and joins that chain        *)
(*   SatInstallAtTableEnd  D3  reserved run reaching the last entry is     *)
(*                             installed                                   *)
(*   PathGuardIncrements   D4  get_path's loop guard counts iterations     *)
(*   RolandWalkBounded     D5  Roland walk detects a revisit               *)
(***************************************************************************)
EXTENDS Naturals, Sequences, FiniteSets, TLC, Json

CONSTANTS N,                    \* number of table entries
          Kind,                 \* "akai" | "roland"
          Alphabet,             \* set of raw 16-bit words to enumerate
          SatInstallOnVisited, SatInstallAtTableEnd, PathGuardIncrements, RolandWalkBounded,
          Lo, Hi,               \* positions Lo..Hi-1 are enumerated over Alphabet, the others are fixed
          EmitCases,            \* print one CASE per complete table
          Stride, Phase         \* emit only tables whose index mod Stride = Phase (1,0 = all)

VARIABLE tbl                    \* sequence of words, grows to length N

Idx == 0 .. N-1
At(t, i) == t[i+1]              \* the code indexes from 0

\* ---- word classes -------------------------------------------------------
AKAI_FREE == 0
AKAI_RES_STD == 16384           \* 0x4000
AKAI_RES_V2 == 32768            \* 0x8000
AKAI_EOF == 49152               \* 0xC000
AkaiIsDir(w) == w \in {AKAI_RES_STD, AKAI_RES_V2}

ROL_FREE == 0
ROL_RESERVED == 1
ROL_ERROR == 65527              \* 0xfff7
ROL_END == 65528                \* 0xfff8 ; every word >= this ends a chain
RolIsEnd(w) == w >= ROL_END

\* ---- sector links (util/fat.py SectorLink) ------------------------------
DefaultLink == [next |-> 0, end |-> TRUE]
NoLinks == [i \in Idx |-> DefaultLink]

\* add_to_sector_links: consecutive pairs, last one is an end.  All callers below pass
\* indices < N, so the IndexError branch cannot fire (checked: InstallInRange).
RECURSIVE Install(_, _, _)
Install(links, sl, k) ==
  IF k > Len(links) THEN sl
  ELSE Install(links,
               [sl EXCEPT ![links[k]] = IF k = Len(links) THEN DefaultLink
                                         ELSE [next |-> links[k+1], end |-> FALSE]],
               k + 1)
InstallLinks(links, sl) == IF links = <<>> THEN sl ELSE Install(links, sl, 1)

SeqHas(s, x) == \E k \in 1..Len(s) : s[k] = x

\* ---- AKAI decoder ---------------------------------------------------------
\* state of the outer `for i` loop: [sl, dirty, prev]
\* inner while: AkaiWalk(t, st, sub, links)
RECURSIVE AkaiWalk(_, _, _, _)
AkaiWalk(t, st, sub, links) ==
  IF sub >= N THEN
       \* (A) left the table
       IF SatInstallAtTableEnd /\ st.prev /\ links # <<>>
         THEN [st EXCEPT !.sl = InstallLinks(links, st.sl)]
         ELSE st
  ELSE LET v == At(t, sub)
           curDir == AkaiIsDir(v)
       IN
       IF ~curDir /\ st.prev /\ links # <<>> THEN
            \* (B) a reserved run ended on the previous sector
            [st EXCEPT !.sl = InstallLinks(links, st.sl), !.prev = FALSE]
       ELSE IF v = AKAI_FREE \/ (v < N /\ st.dirty[v]) THEN
            \* (C) free sector, or link to an already visited sector
            IF SatInstallOnVisited /\ v # AKAI_FREE /\ v # sub /\ ~SeqHas(links, v) /\ At(t, v) # AKAI_FREE
              THEN LET l2 == Append(links, sub)
                       s2 == InstallLinks(l2, st.sl)
                   IN [sl |-> [s2 EXCEPT ![sub] = [next |-> v, end |-> FALSE]],
                       dirty |-> [st.dirty EXCEPT ![sub] = TRUE], prev |-> FALSE]
              ELSE [st EXCEPT !.dirty[sub] = TRUE, !.prev = FALSE]
       ELSE IF v = AKAI_EOF THEN
            \* (D)
            [sl |-> InstallLinks(Append(links, sub), st.sl),
             dirty |-> [st.dirty EXCEPT ![sub] = TRUE], prev |-> curDir]
       ELSE \* (E) follow
            AkaiWalk(t, [st EXCEPT !.dirty[sub] = TRUE, !.prev = curDir],
                     IF curDir THEN sub + 1 ELSE v, Append(links, sub))

RECURSIVE AkaiFor(_, _, _)
AkaiFor(t, st, i) ==
  IF i >= N THEN st
  ELSE AkaiFor(t, IF st.dirty[i] THEN st ELSE AkaiWalk(t, st, i, <<>>), i + 1)

AkaiDecode(t) ==
  [kind |-> "ok",
   sl |-> AkaiFor(t, [sl |-> NoLinks, dirty |-> [i \in Idx |-> FALSE], prev |-> TRUE], 0).sl]

\* ---- Roland decoder -------------------------------------------------------
\* result: [kind |-> "ok", sl |-> ..] | [kind |-> "error", why |-> ..] | [kind |-> "hang"]
RECURSIVE RolWalk(_, _, _, _)
RolWalk(t, st, sub, links) ==
  IF st.kind # "ok" THEN st
  ELSE IF sub >= N THEN st
  ELSE LET v == At(t, sub)
           st1 == [st EXCEPT !.dirty[sub] = TRUE]
       IN
       IF SeqHas(links, sub) THEN
            \* revisit inside the current walk: a cycle
            IF RolandWalkBounded THEN [st1 EXCEPT !.kind = "error", !.why = "loop"]
                                 ELSE [st1 EXCEPT !.kind = "hang"]
       ELSE IF v = ROL_ERROR THEN [st1 EXCEPT !.kind = "error", !.why = "error_flag"]
       ELSE IF v \in {ROL_RESERVED, ROL_FREE} THEN
            IF links # <<>> THEN [st1 EXCEPT !.kind = "error", !.why = "unexpected_flag"] ELSE st1
       ELSE IF RolIsEnd(v) THEN [st1 EXCEPT !.sl = InstallLinks(Append(links, sub), st1.sl)]
       ELSE RolWalk(t, st1, v, Append(links, sub))

RECURSIVE RolFor(_, _, _)
RolFor(t, st, i) ==
  IF i >= N - 9 \/ st.kind # "ok" THEN st
  ELSE RolFor(t, IF st.dirty[i] THEN st ELSE RolWalk(t, st, i, <<>>), i + 1)

RolDecode(t) ==
  LET st == RolFor(t, [kind |-> "ok", why |-> "", sl |-> NoLinks,
                       dirty |-> [i \in Idx |-> i < 2]], 2)
  IN IF st.kind = "ok" THEN [kind |-> "ok", sl |-> st.sl]
     ELSE IF st.kind = "hang" THEN [kind |-> "hang"]
     ELSE [kind |-> "error", why |-> st.why]

Decode(t) == IF Kind = "akai" THEN AkaiDecode(t) ELSE RolDecode(t)

\* ---- get_path ---------------------------------------------------------------
\* cnt models loop_cnt; with PathGuardIncrements = FALSE it stays 0 and a cyclic
\* table makes the loop revisit a state: reported as "hang" when a sector repeats.
RECURSIVE PathWalk(_, _, _, _, _)
PathWalk(sl, size, cur, path, cnt) ==
  IF cnt >= size THEN [kind |-> "broken"]
  ELSE IF cur >= N THEN [kind |-> "invalid_sector"]
  ELSE IF ~PathGuardIncrements /\ SeqHas(path, cur) THEN [kind |-> "hang"]
  ELSE IF sl[cur].end THEN [kind |-> "path", path |-> Append(path, cur)]
  ELSE PathWalk(sl, size, sl[cur].next, Append(path, cur), IF PathGuardIncrements THEN cnt + 1 ELSE cnt)

GetPath(sl, start) == PathWalk(sl, N, start, <<>>, 0)

\* ---- what the property calls a well-formed chain ----------------------------
IsLink(w) == IF Kind = "akai" THEN w > 0 /\ w < N
                               ELSE w >= 2 /\ w < N
IsEnd(w) == IF Kind = "akai" THEN w = AKAI_EOF ELSE RolIsEnd(w)
LinkedFrom(t, x) == {y \in Idx : IsLink(At(t, y)) /\ At(t, y) = x}

\* Follow(t, s): the sequence obtained by following the table from s, or <<>> when it does not
\* reach an end marker through distinct in-range sectors.
RECURSIVE FollowRec(_, _, _)
FollowRec(t, cur, acc) ==
  IF cur >= N \/ SeqHas(acc, cur) THEN <<>>
  ELSE LET w == At(t, cur) IN
       IF IsEnd(w) THEN Append(acc, cur)
       ELSE IF IsLink(w) THEN FollowRec(t, w, Append(acc, cur))
       ELSE <<>>
Follow(t, s) == FollowRec(t, s, <<>>)

WellFormedFile(t, s) ==
  /\ s \in Idx
  /\ (Kind = "roland" => s >= 2 /\ s < N - 9)       \* heads the Roland decoder considers
  /\ LET f == Follow(t, s) IN
     /\ f # <<>>
     /\ \A k \in 1..Len(f) : Cardinality(LinkedFrom(t, f[k])) = (IF k = 1 THEN 0 ELSE 1)
     \* AKAI: (B) in the decoder gives a sector directly after a reserved run a special role
     \* only for the run itself; a file chain is unaffected.

\* AKAI directory area: the maximal run of reserved words starting at s, no table entry links into it
RECURSIVE RunEnd(_, _)
RunEnd(t, s) == IF s + 1 < N /\ AkaiIsDir(At(t, s + 1)) THEN RunEnd(t, s + 1) ELSE s
DirRun(t, s) == [k \in 1..(RunEnd(t, s) - s + 1) |-> s + k - 1]
WellFormedDir(t, s) ==
  /\ Kind = "akai" /\ s \in Idx /\ AkaiIsDir(At(t, s))
  /\ \A x \in s..RunEnd(t, s) : LinkedFrom(t, x) = {}
  \* the run the decoder builds starts at the first reserved word of the run containing s;
  \* sectors of that run before s must not be linked into either
  /\ \A x \in Idx : (x < s /\ \A y \in x..s : AkaiIsDir(At(t, y))) => LinkedFrom(t, x) = {}

Expected(t, s) ==
  IF WellFormedFile(t, s) THEN Follow(t, s)
  ELSE IF WellFormedDir(t, s) THEN DirRun(t, s)
  ELSE <<>>

\* ---- the design property -----------------------------------------------------
Resolved(t, s) == LET d == Decode(t) IN
                  IF d.kind = "ok" THEN GetPath(d.sl, s) ELSE d

\* A Roland table is refused as a whole ("reported error") when some chain starting at a head runs
\* into an error / free / reserved word or into itself.  The property allows a reported error only
\* for tables that contain such a malformation; a clean table must decode.
RECURSIVE WalkClean(_, _, _)
WalkClean(t, cur, seen) ==
  IF cur >= N THEN TRUE                      \* out of range: silently dropped by the decoder
  ELSE IF cur \in seen THEN FALSE
  ELSE LET w == At(t, cur) IN
       IF w = ROL_ERROR THEN FALSE
       ELSE IF w \in {ROL_FREE, ROL_RESERVED} THEN seen = {}
       ELSE IF RolIsEnd(w) THEN TRUE
       ELSE WalkClean(t, w, seen \cup {cur})
TableClean(t) == Kind = "akai" \/ \A h \in 2..(N - 10) : WalkClean(t, h, {})

WellFormedChainResolved ==
  Len(tbl) = N =>
    /\ TableClean(tbl) => Decode(tbl).kind = "ok"
    /\ Decode(tbl).kind = "ok" =>
         \A s \in Idx : Expected(tbl, s) # <<>> =>
            Resolved(tbl, s) = [kind |-> "path", path |-> Expected(tbl, s)]

\* nothing ever hangs: every decode and every resolution ends
AlwaysTerminates ==
  Len(tbl) = N => /\ Decode(tbl).kind # "hang"
                  /\ \A s \in 0..N : Resolved(tbl, s).kind # "hang"

\* links installed by a decoder never form a cycle (explains why get_path ends on decoded tables)
RECURSIVE Reach(_, _, _)
Reach(sl, cur, seen) == IF cur >= N \/ cur \in seen THEN cur \in seen
                        ELSE IF sl[cur].end THEN FALSE ELSE Reach(sl, sl[cur].next, seen \cup {cur})
DecodedLinksAcyclic ==
  Len(tbl) = N => LET d == Decode(tbl) IN d.kind = "ok" => \A s \in Idx : ~Reach(d.sl, s, {})

\* ---- case emission ----------------------------------------------------------
RECURSIVE TblIndex(_, _)
TblIndex(t, k) == IF k > Len(t) THEN 0 ELSE (TblIndex(t, k + 1) * 7 + t[k]) % 1000003
CaseRec(t) ==
  LET d == Decode(t) IN
  [kind |-> Kind, n |-> N, tbl |-> t, clean |-> TableClean(t),
   decode |-> IF d.kind = "ok" THEN [kind |-> "ok"] ELSE d,
   starts |-> [s \in 1..(N+1) |->
                 [start |-> s - 1,
                  expected |-> IF s <= N THEN Expected(t, s - 1) ELSE <<>>,
                  spec |-> IF d.kind = "ok" THEN GetPath(d.sl, s - 1) ELSE [kind |-> "decode_failed"]]]]

Emit ==
  (EmitCases /\ Len(tbl) = N /\ TblIndex(tbl, 1) % Stride = Phase)
     => PrintT(<<"CASE", ToJson(CaseRec(tbl))>>)

\* ---- state machine -------------------------------------------------------------
\* Roland: entries 0/1 overlay the FAT id and the free-cluster count, the last two entries overlay
\* the version flags (0xffff); heads are 2..N-10, entries N-9..N-1 can only be walked into.
FixedWord(pos) == IF Kind = "akai" THEN 0
                  ELSE IF pos = 0 THEN 65530 ELSE IF pos >= N - 2 THEN 65535 ELSE 0
Init == tbl = <<>>
Extend == /\ Len(tbl) < N
          /\ LET pos == Len(tbl) IN
             IF pos >= Lo /\ pos < Hi THEN \E w \in Alphabet : tbl' = Append(tbl, w)
             ELSE \* all fixed words up to the next enumerated position (or the end) in one step
                  LET upto == IF pos < Lo THEN Lo ELSE N
                  IN tbl' = tbl \o [k \in 1..(upto - pos) |-> FixedWord(pos + k - 1)]
Next == Extend
Spec == Init /\ [][Next]_tbl
=============================================================================
