----------------------------- MODULE AllocWalk -----------------------------
(***************************************************************************)
(* Step-wise transcription of the table-walking loops, one action per loop *)
(* iteration, with the growing Python lists (path, subpath_links) dropped  *)
(* from the state.  Non-termination is then a lasso in the state graph and *)
(* the property is the liveness formula  <>(pc = "Done")  under weak       *)
(* fairness of Next.                                                       *)
(*                                                                         *)
(*   Kind = "path"    util/fat.py  FileAllocationTable.get_path over ALL   *)
(*                    link tables  [0..N-1 -> (next in 0..N, end)]         *)
(*   Kind = "roland"  roland/s7xx/fat.py  FatAreaAdapter._decode walk      *)
(*   Kind = "akai"    akai/sat.py  _decode  (dirty flags make it finite)   *)
(*                                                                         *)
(* PathGuardIncrements / RolandWalkBounded: see AllocTable.tla.            *)
(***************************************************************************)
EXTENDS Naturals, Sequences, FiniteSets, TLC

CONSTANTS N, Kind, Alphabet, Lo, Hi, PathGuardIncrements, RolandWalkBounded

VARIABLES tbl,      \* "path": sequence of <<next, end>> ; else sequence of raw words
          pc,       \* "Build" | "For" | "Walk" | "Done"
          i,        \* outer loop index (decoders) / start sector (path)
          sub,      \* current sector of the walk
          cnt,      \* get_path: loop_cnt ; decoders: number of links collected in this walk
          dirty,    \* visited flags (decoders)
          prev      \* akai: previous_sector_was_directory
vars == <<tbl, pc, i, sub, cnt, dirty, prev>>

Idx == 0..N-1
At(t, k) == t[k+1]
LinkWords == {<<n, e>> : n \in 0..N, e \in BOOLEAN}

FixedWord(pos) == IF Kind # "roland" THEN 0
                  ELSE IF pos = 0 THEN 65530 ELSE IF pos >= N - 2 THEN 65535 ELSE 0

Init == /\ tbl = <<>> /\ pc = "Build" /\ i = 0 /\ sub = 0 /\ cnt = 0
        /\ dirty = [k \in Idx |-> Kind = "roland" /\ k < 2] /\ prev = TRUE

Build ==
  /\ pc = "Build"
  /\ IF Len(tbl) < N
       THEN /\ LET pos == Len(tbl) IN
               IF Kind = "path" THEN \E w \in LinkWords : tbl' = Append(tbl, w)
               ELSE IF pos >= Lo /\ pos < Hi THEN \E w \in Alphabet : tbl' = Append(tbl, w)
               ELSE tbl' = Append(tbl, FixedWord(pos))
            /\ UNCHANGED <<pc, i, sub, cnt, dirty, prev>>
       ELSE /\ IF Kind = "path"
                 THEN \E s \in 0..N : i' = s /\ sub' = s /\ pc' = "Walk"
                 ELSE i' = (IF Kind = "roland" THEN 2 ELSE 0) /\ sub' = 0 /\ pc' = "For"
            /\ UNCHANGED <<tbl, cnt, dirty, prev>>

\* ---- get_path: one iteration of `while loop_cnt < self.size` -----------------
PathStep ==
  /\ pc = "Walk" /\ Kind = "path"
  /\ IF cnt >= N THEN pc' = "Done" /\ UNCHANGED <<sub, cnt>>            \* InvalidFatDefinition
     ELSE IF sub >= N THEN pc' = "Done" /\ UNCHANGED <<sub, cnt>>       \* RequestedInvalidSector
     ELSE IF At(tbl, sub)[2] THEN pc' = "Done" /\ UNCHANGED <<sub, cnt>>  \* end: break
     ELSE /\ sub' = At(tbl, sub)[1]
          /\ cnt' = IF PathGuardIncrements THEN cnt + 1 ELSE cnt
          /\ pc' = "Walk"
  /\ UNCHANGED <<tbl, i, dirty, prev>>

\* ---- decoders: the `for i` loop ---------------------------------------------
ForStep ==
  /\ pc = "For" /\ Kind # "path"
  /\ LET hi == IF Kind = "roland" THEN N - 9 ELSE N IN
     IF i >= hi THEN pc' = "Done" /\ UNCHANGED <<i, sub, cnt>>
     ELSE IF dirty[i] THEN i' = i + 1 /\ UNCHANGED <<pc, sub, cnt>>
     ELSE pc' = "Walk" /\ sub' = i /\ cnt' = 0 /\ UNCHANGED i
  /\ UNCHANGED <<tbl, dirty, prev>>

EndWalk == pc' = "For" /\ i' = i + 1

RolandStep ==
  /\ pc = "Walk" /\ Kind = "roland"
  /\ IF sub >= N THEN EndWalk /\ UNCHANGED <<sub, cnt, dirty>>
     ELSE LET v == At(tbl, sub) IN
          /\ dirty' = [dirty EXCEPT ![sub] = TRUE]
          /\ IF RolandWalkBounded /\ cnt > N THEN pc' = "Done" /\ UNCHANGED <<i, sub, cnt>>   \* error: loop
             ELSE IF v = 65527 THEN pc' = "Done" /\ UNCHANGED <<i, sub, cnt>>                 \* error flag
             ELSE IF v \in {0, 1} THEN
                    IF cnt > 0 THEN pc' = "Done" /\ UNCHANGED <<i, sub, cnt>>                 \* unexpected flag
                               ELSE EndWalk /\ UNCHANGED <<sub, cnt>>
             ELSE IF v >= 65528 THEN EndWalk /\ UNCHANGED <<sub, cnt>>
             ELSE /\ sub' = v
                  /\ cnt' = IF cnt > N THEN cnt ELSE cnt + 1      \* saturating: the list length is abstracted
                  /\ UNCHANGED <<pc, i>>
  /\ UNCHANGED <<tbl, prev>>

AkaiStep ==
  /\ pc = "Walk" /\ Kind = "akai"
  /\ IF sub >= N THEN EndWalk /\ UNCHANGED <<sub, cnt, dirty, prev>>
     ELSE LET v == At(tbl, sub)
              curDir == v \in {16384, 32768}
          IN
          IF ~curDir /\ prev /\ cnt > 0 THEN EndWalk /\ prev' = FALSE /\ UNCHANGED <<sub, cnt, dirty>>
          ELSE IF v = 0 \/ (v < N /\ dirty[v]) THEN
               EndWalk /\ dirty' = [dirty EXCEPT ![sub] = TRUE] /\ prev' = FALSE /\ UNCHANGED <<sub, cnt>>
          ELSE IF v = 49152 THEN
               EndWalk /\ dirty' = [dirty EXCEPT ![sub] = TRUE] /\ prev' = curDir /\ UNCHANGED <<sub, cnt>>
          ELSE /\ dirty' = [dirty EXCEPT ![sub] = TRUE]
               /\ cnt' = IF cnt > N THEN cnt ELSE cnt + 1
               /\ sub' = IF curDir THEN sub + 1 ELSE v
               /\ prev' = curDir
               /\ UNCHANGED <<pc, i>>
  /\ UNCHANGED tbl

Next == Build \/ PathStep \/ ForStep \/ RolandStep \/ AkaiStep
Spec == Init /\ [][Next]_vars /\ WF_vars(Next)

Terminates == <>(pc = "Done")
\* a bound on the number of walk iterations (AKAI): every non-final iteration marks a fresh sector
TypeOK == /\ pc \in {"Build", "For", "Walk", "Done"} /\ i \in 0..(N+1) /\ cnt \in 0..(N+1)
=============================================================================
