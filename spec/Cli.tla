-------------------------------- MODULE Cli --------------------------------
(***************************************************************************)
(* The command line (smpl_extract/__main__.py): how an argument vector is  *)
(* routed to `ls <image> [path]` or `export <image> [-d DEST] [-f wav]`.   *)
(*                                                                         *)
(* The code parses in two stages, and the specification has one action per *)
(* token of each stage, shaped like the loop of the argument parser it     *)
(* uses (positionals are taken greedily from a run of non-option tokens;   *)
(* a positional that may be empty is used up by the run that takes its     *)
(* predecessor; an unknown option is set aside):                           *)
(*   stage "main": positionals command, args*; knows no option; hands      *)
(*                 args \o set-aside tokens to the command's parser        *)
(*   stage "sub" : ls     image [path]            options: -h              *)
(*                 export image                   options: -h -d/-f (1 arg)*)
(* The type check of <image> (exists / is a file) runs the moment the      *)
(* token is taken, so it precedes errors further right.                    *)
(*                                                                         *)
(* Next to the scanner stands the declarative reading of a command line    *)
(* (Valid / Meaning); TLC checks over every argument vector up to MaxLen   *)
(* that the scanner runs a command iff the vector is Valid, with exactly   *)
(* the declared arguments: nothing is dropped silently, nothing is         *)
(* misrouted, the place of an option does not matter.                      *)
(***************************************************************************)
EXTENDS Integers, Sequences, FiniteSets, TLC, Json

CONSTANTS ATok,        \* tokens that do not look like options (subset of the names below)
          OTok,        \* option-like tokens
          MaxLen, EmitCases

Commands == {"ls", "export"}
OptD2 == {"-d", "--destination"}               \* take the next token as value
OptD1 == {"--destination=out", "-dout"}        \* value attached: "out"
OptF2 == {"-f", "--format"}
OptF1 == {"-fwav"}
Help  == {"-h", "--help"}
Self  == OptD1 \cup OptF1
Known(cmd) == IF cmd = "export" THEN OptD2 \cup OptD1 \cup OptF2 \cup OptF1 \cup Help ELSE Help
ASSUME ATok \cap OTok = {} /\ OTok \subseteq OptD2 \cup OptD1 \cup OptF2 \cup OptF1 \cup Help \cup {"-X"}

\* the file system the command line is run in: "img" is a regular file, "dir" a directory, nothing else exists
FileCheck(t) == IF t = "img" THEN "ok" ELSE IF t = "dir" THEN "notfile" ELSE "nofile"

VARIABLES argv,      \* the argument vector (chosen in Init)
          phase,     \* "main" | "sub" | "done"
          line,      \* the tokens the current stage scans
          i,         \* next token of line
          npos,      \* 0: no positional taken; 1: inside the run that took the first; 2: positionals used up
          command, args, extras, image, second, dest, out
vars == <<argv, phase, line, i, npos, command, args, extras, image, second, dest, out>>

None == "<none>"
Outcome(k) == [kind |-> k, cmd |-> None, image |-> None, arg |-> None]

Init == /\ argv = <<>>
        /\ phase = "build" /\ line = <<>> /\ i = 1 /\ npos = 0
        /\ command = None /\ args = <<>> /\ extras = <<>> /\ image = None /\ second = None /\ dest = None
        /\ out = Outcome("pending")

\* the argument vector is any sequence of tokens up to MaxLen
Type == /\ phase = "build" /\ Len(argv) < MaxLen
        /\ \E t \in ATok \cup OTok : argv' = Append(argv, t)
        /\ UNCHANGED <<phase, line, i, npos, command, args, extras, image, second, dest, out>>
Enter == /\ phase = "build" /\ phase' = "main" /\ line' = argv
         /\ UNCHANGED <<argv, i, npos, command, args, extras, image, second, dest, out>>

Finish(o) == /\ out' = o /\ phase' = "done"
             /\ UNCHANGED <<argv, line, i, npos, command, args, extras, image, second, dest>>

-----------------------------------------------------------------------------
\* stage "main"
MainWord == /\ phase = "main" /\ i <= Len(line) /\ line[i] \in ATok
            /\ CASE npos = 0 -> IF line[i] \in Commands
                                THEN /\ command' = line[i] /\ npos' = 1 /\ i' = i + 1
                                     /\ UNCHANGED <<argv, phase, line, args, extras, image, second, dest, out>>
                                ELSE Finish(Outcome("usage"))                      \* invalid choice
                 [] npos = 1 -> /\ args' = Append(args, line[i]) /\ i' = i + 1
                                /\ UNCHANGED <<argv, phase, line, npos, command, extras, image, second, dest, out>>
                 [] OTHER    -> /\ extras' = Append(extras, line[i]) /\ i' = i + 1
                                /\ UNCHANGED <<argv, phase, line, npos, command, args, image, second, dest, out>>
MainOption == /\ phase = "main" /\ i <= Len(line) /\ line[i] \in OTok
              /\ extras' = Append(extras, line[i]) /\ i' = i + 1
              /\ npos' = IF npos = 1 THEN 2 ELSE npos
              /\ UNCHANGED <<argv, phase, line, command, args, image, second, dest, out>>
Dispatch == /\ phase = "main" /\ i > Len(line)
            /\ IF npos = 0 THEN Finish(Outcome("usage"))                           \* command required
               ELSE /\ phase' = "sub" /\ line' = args \o extras /\ i' = 1 /\ npos' = 0 /\ extras' = <<>>
                    /\ UNCHANGED <<argv, command, args, image, second, dest, out>>

-----------------------------------------------------------------------------
\* stage "sub"
SubWord == /\ phase = "sub" /\ i <= Len(line) /\ line[i] \in ATok
           /\ CASE npos = 0 -> IF FileCheck(line[i]) = "ok"
                               THEN /\ image' = line[i] /\ npos' = 1 /\ i' = i + 1
                                    /\ UNCHANGED <<argv, phase, line, command, args, extras, second, dest, out>>
                               ELSE Finish(Outcome(FileCheck(line[i])))
                [] npos = 1 /\ command = "ls" ->
                               /\ second' = line[i] /\ npos' = 2 /\ i' = i + 1
                               /\ UNCHANGED <<argv, phase, line, command, args, extras, image, dest, out>>
                [] OTHER    -> /\ extras' = Append(extras, line[i]) /\ i' = i + 1 /\ npos' = IF npos = 1 THEN 2 ELSE npos
                               /\ UNCHANGED <<argv, phase, line, command, args, image, second, dest, out>>
HasValue == i + 1 <= Len(line) /\ line[i + 1] \in ATok
SubOption ==
  /\ phase = "sub" /\ i <= Len(line) /\ line[i] \in OTok
  /\ LET t == line[i]
         closed == IF npos = 1 THEN 2 ELSE npos IN
     CASE t \in Help -> Finish(Outcome("help"))
       [] t \notin Known(command) ->
            /\ extras' = Append(extras, t) /\ i' = i + 1 /\ npos' = closed
            /\ UNCHANGED <<argv, phase, line, command, args, image, second, dest, out>>
       [] t \in OptD1 ->
            /\ dest' = "out" /\ i' = i + 1 /\ npos' = closed
            /\ UNCHANGED <<argv, phase, line, command, args, extras, image, second, out>>
       [] t \in OptF1 ->
            /\ i' = i + 1 /\ npos' = closed
            /\ UNCHANGED <<argv, phase, line, command, args, extras, image, second, dest, out>>
       [] t \in OptD2 ->
            IF HasValue THEN /\ dest' = line[i + 1] /\ i' = i + 2 /\ npos' = closed
                             /\ UNCHANGED <<argv, phase, line, command, args, extras, image, second, out>>
            ELSE Finish(Outcome("usage"))                                            \* expected one argument
       [] OTHER ->                                                                   \* OptF2
            IF HasValue /\ line[i + 1] = "wav"
            THEN /\ i' = i + 2 /\ npos' = closed
                 /\ UNCHANGED <<argv, phase, line, command, args, extras, image, second, dest, out>>
            ELSE Finish(Outcome("usage"))                                            \* missing value / invalid choice
Run == /\ phase = "sub" /\ i > Len(line)
       /\ IF npos = 0 \/ extras # <<>> THEN Finish(Outcome("usage"))               \* image required / unrecognised arguments
          ELSE Finish([kind |-> "run", cmd |-> command, image |-> image,
                       arg |-> IF command = "ls" THEN (IF second = None THEN "" ELSE second)
                               ELSE (IF dest = None THEN "." ELSE dest)])

Next == Type \/ Enter \/ MainWord \/ MainOption \/ Dispatch \/ SubWord \/ SubOption \/ Run
Spec == Init /\ [][Next]_vars /\ WF_vars(Next)

-----------------------------------------------------------------------------
\* the declarative reading of an argument vector
\* groups of the part behind the command: <<word>>, <<self-contained option>>, <<option, value>>
RECURSIVE Groups(_)
Groups(r) == IF r = <<>> THEN <<>>
             ELSE IF r[1] \in OptD2 \cup OptF2 /\ Len(r) >= 2 /\ r[2] \in ATok
                  THEN <<SubSeq(r, 1, 2)>> \o Groups(SubSeq(r, 3, Len(r)))
                  ELSE <<SubSeq(r, 1, 1)>> \o Groups(Tail(r))
SelectG(g, P(_)) == SelectSeq(g, P)
IsWord(x) == Len(x) = 1 /\ x[1] \in ATok
IsDest(x) == (Len(x) = 2 /\ x[1] \in OptD2) \/ (Len(x) = 1 /\ x[1] \in OptD1)
IsFmt(x)  == (Len(x) = 2 /\ x[1] \in OptF2 /\ x[2] = "wav") \/ (Len(x) = 1 /\ x[1] \in OptF1)
DestOf(x) == IF Len(x) = 2 THEN x[2] ELSE "out"

FirstWord(v) == CHOOSE k \in 1..Len(v) : v[k] \in ATok /\ \A j \in 1..(k - 1) : v[j] \notin ATok
HasWord(v) == \E k \in 1..Len(v) : v[k] \in ATok
Before(v) == SubSeq(v, 1, FirstWord(v) - 1)
Behind(v) == SubSeq(v, FirstWord(v) + 1, Len(v))

Valid(v) ==
  /\ HasWord(v) /\ v[FirstWord(v)] \in Commands
  /\ LET cmd == v[FirstWord(v)]
         g == Groups(Behind(v))
         words == SelectG(g, IsWord) IN
     IF cmd = "ls"
     THEN /\ Before(v) = <<>> /\ Len(words) = Len(g) /\ Len(words) \in {1, 2}
     ELSE /\ \A k \in 1..Len(Before(v)) : Before(v)[k] \in Self
          /\ \A k \in 1..Len(g) : IsWord(g[k]) \/ IsDest(g[k]) \/ IsFmt(g[k])
          /\ Len(words) = 1
Meaning(v) ==
  LET cmd == v[FirstWord(v)]
      g == Groups(Behind(v))
      words == SelectG(g, IsWord)
      \* the command's parser sees the options written before the command first, then those behind it; the last -d wins
      dests == SelectG(g, IsDest)
      pre == SelectSeq(Before(v), LAMBDA t : t \in OptD1)
      lastdest == IF dests # <<>> THEN DestOf(dests[Len(dests)]) ELSE IF pre # <<>> THEN "out" ELSE "." IN
  [kind |-> "run", cmd |-> cmd, image |-> words[1][1],
   arg |-> IF cmd = "ls" THEN (IF Len(words) = 2 THEN words[2][1] ELSE "") ELSE lastdest]

Done == phase = "done"
\* a Valid vector naming an existing file runs exactly the declared command ...
RunsWhatWasAsked == (Done /\ Valid(argv) /\ FileCheck(Meaning(argv).image) = "ok") => out = Meaning(argv)
\* ... and nothing else runs: no token dropped silently, no misrouting
RunsOnlyWhatWasAsked == (Done /\ out.kind = "run") => (Valid(argv) /\ out = Meaning(argv))
\* a Valid vector whose image is not a regular file says so
MissingImageReported == (Done /\ Valid(argv) /\ FileCheck(Meaning(argv).image) # "ok") => out.kind = FileCheck(Meaning(argv).image)
HelpOnlyOnRequest == (Done /\ out.kind = "help") => \E k \in 1..Len(argv) : argv[k] \in Help
Terminates == <>Done
TypeOK == /\ phase \in {"build", "main", "sub", "done"} /\ npos \in 0..2 /\ i \in 1..(Len(line) + 1)
          /\ out.kind \in {"pending", "run", "usage", "help", "nofile", "notfile"}

Emit == (EmitCases /\ Done) => PrintT(<<"CASE", ToJson([argv |-> argv, out |-> out, valid |-> Valid(argv)])>>)
=============================================================================
