----------------------------- MODULE CodecCalls -----------------------------
(***************************************************************************)
(* The string codecs of akai/akai_string.py as a system with calls: a      *)
(* process decodes and encodes many names in a row (one per directory      *)
(* entry), some of them damaged.  The specification has no memory - the    *)
(* result of a call is Result(dir, input) whatever was called before,      *)
(* whether or not the earlier call was rejected half-way through a name.   *)
(* TLC enumerates every history of MaxCalls calls over the pools; each is  *)
(* replayed against the real functions in ONE interpreter, call by call.   *)
(***************************************************************************)
EXTENDS Codecs

CONSTANTS PoolDec,      \* AKAI-coded byte sequences (valid names, names with a foreign byte first / inside / last)
          PoolEnc,      \* ASCII-coded byte sequences
          MaxCalls
VARIABLE calls
cvars == <<x, calls>>

Map(s, Op(_)) == [i \in 1..Len(s) |-> Op(s[i])]
Result(dir, s) ==
  IF dir = "dec" THEN (IF \A i \in 1..Len(s) : AkaiValid(s[i]) THEN [ok |-> TRUE, out |-> Map(s, AkaiToAscii)] ELSE [ok |-> FALSE, out |-> <<>>])
  ELSE (IF \A i \in 1..Len(s) : AsciiValid(s[i]) THEN [ok |-> TRUE, out |-> Map(s, AsciiToAkai)] ELSE [ok |-> FALSE, out |-> <<>>])

CallsInit == x = 0 /\ calls = <<>>
Decode(s) == calls' = Append(calls, [dir |-> "dec", inp |-> s, res |-> Result("dec", s)]) /\ UNCHANGED x
Encode(s) == calls' = Append(calls, [dir |-> "enc", inp |-> s, res |-> Result("enc", s)]) /\ UNCHANGED x
CallsNext == Len(calls) < MaxCalls /\ ((\E s \in PoolDec : Decode(s)) \/ (\E s \in PoolEnc : Encode(s)))

\* no memory: equal calls have equal results at every position of every history
Memoryless == \A i, j \in 1..Len(calls) : (calls[i].dir = calls[j].dir /\ calls[i].inp = calls[j].inp) => calls[i].res = calls[j].res
\* a decoded name encodes back to itself and conversely, also in the middle of a history
RoundTrips == \A i \in 1..Len(calls) : calls[i].res.ok =>
                 Result(IF calls[i].dir = "dec" THEN "enc" ELSE "dec", calls[i].res.out) = [ok |-> TRUE, out |-> calls[i].inp]
\* the pools exercise what they are meant to: some rejected name has a valid character BEFORE the foreign byte
ASSUME \E s \in PoolDec : Len(s) >= 2 /\ AkaiValid(s[1]) /\ ~AkaiValid(s[Len(s)])
ASSUME \E s \in PoolEnc : Len(s) >= 2 /\ AsciiValid(s[1]) /\ ~AsciiValid(s[Len(s)])
Emit == Len(calls) = MaxCalls => PrintT(<<"CASE", ToJson(calls)>>)
=============================================================================
