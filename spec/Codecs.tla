------------------------------- MODULE Codecs -------------------------------
(***************************************************************************)
(* The three small codecs of smpl_extract as TLA+ functions over their     *)
(* whole domains:                                                          *)
(*   akai/akai_string.py   AKAI character set <-> ASCII                    *)
(*   midi.py               note number <-> (degree, sharp, octave) <-> text*)
(*   akai/data_types.py    tuning byte <-> cents (exact rationals)         *)
(* The properties (C18) are ASSUMEd, i.e. evaluated by TLC over all 256    *)
(* byte values; the tables are printed for the conformance harness.        *)
(***************************************************************************)
EXTENDS Integers, Sequences, FiniteSets, TLC, Json

Bytes == 0..255
\* ---- AKAI characters ----------------------------------------------------------
\* ASCII codes: '0' 48, '9' 57, ' ' 32, 'A' 65, 'Z' 90, '#' 35, '+' 43, '-' 45, '.' 46
AkaiValid(b) == b \in 0..40
AkaiToAscii(b) == IF b \in 0..9 THEN 48 + b
                  ELSE IF b = 10 THEN 32
                  ELSE IF b \in 11..36 THEN 65 + (b - 11)
                  ELSE IF b = 37 THEN 35 ELSE IF b = 38 THEN 43 ELSE IF b = 39 THEN 45 ELSE 46
AsciiValid(c) == c \in (48..57) \cup (65..90) \cup {32, 35, 43, 45, 46}
AsciiToAkai(c) == IF c \in 48..57 THEN c - 48
                  ELSE IF c = 32 THEN 10
                  ELSE IF c \in 65..90 THEN 11 + (c - 65)
                  ELSE IF c = 35 THEN 37 ELSE IF c = 43 THEN 38 ELSE IF c = 45 THEN 39 ELSE 40

ASSUME Cardinality({b \in Bytes : AkaiValid(b)}) = 41
ASSUME Cardinality({c \in Bytes : AsciiValid(c)}) = 41
ASSUME \A b \in Bytes : AkaiValid(b) => AsciiValid(AkaiToAscii(b)) /\ AsciiToAkai(AkaiToAscii(b)) = b
ASSUME \A c \in Bytes : AsciiValid(c) => AkaiValid(AsciiToAkai(c)) /\ AkaiToAscii(AsciiToAkai(c)) = c
ASSUME \A a, b \in 0..40 : a # b => AkaiToAscii(a) # AkaiToAscii(b)

\* ---- notes ------------------------------------------------------------------------
\* semitone within the octave (0 = A) -> <<degree letter, sharp>>
ScaleTable == << <<"A", FALSE>>, <<"A", TRUE>>, <<"B", FALSE>>, <<"C", FALSE>>, <<"C", TRUE>>, <<"D", FALSE>>,
                 <<"D", TRUE>>, <<"E", FALSE>>, <<"F", FALSE>>, <<"F", TRUE>>, <<"G", FALSE>>, <<"G", TRUE>> >>
FloorDiv(a, b) == IF a >= 0 THEN a \div b ELSE -((-a + b - 1) \div b)
Mod(a, b) == a - b * FloorDiv(a, b)
FromIntA0(n) == [deg |-> ScaleTable[Mod(n, 12) + 1][1], sharp |-> ScaleTable[Mod(n, 12) + 1][2], oct |-> FloorDiv(n, 12)]
DegSemis(d, sharp) == (CASE d = "A" -> 0 [] d = "B" -> 2 [] d = "C" -> 3 [] d = "D" -> 5 [] d = "E" -> 7 [] d = "F" -> 8 [] OTHER -> 10)
                      + (IF sharp THEN 1 ELSE 0)
ToIntA0(note) == DegSemis(note.deg, note.sharp) + 12 * note.oct
FromByte(b) == FromIntA0(b - 21)          \* AKAI_SAMPLE_A0 = MIDI_A0 = 21
ToByte(note) == ToIntA0(note) + 21
NoteText(note) == <<note.deg, IF note.sharp THEN "#" ELSE "", note.oct>>
TextParses(note) == note.oct \in 0..9      \* the text form carries one decimal digit for the octave

ASSUME \A b \in Bytes : ToByte(FromByte(b)) = b
ASSUME \A o \in 0..9 : \A k \in 0..11 : FromIntA0(12 * o + k).oct = o /\ ToIntA0(FromIntA0(12 * o + k)) = 12 * o + k
\* the 12 x octave note names are pairwise distinct texts
ASSUME \A m, n \in 0..119 : m # n => NoteText(FromIntA0(m)) # NoteText(FromIntA0(n))

\* ---- tuning ---------------------------------------------------------------------------
\* signed byte x -> cents as the exact rational <<num, den>>:  100/255 * (x + 128) - 50 = (100 x + 50) / 255, and 0 -> 0
Signed(b) == IF b < 128 THEN b ELSE b - 256
CentsOf(x) == IF x = 0 THEN <<0, 1>> ELSE <<100 * x + 50, 255>>
\* cents q = n/d -> byte: 0 -> 0 ; else round(255/100 * (q + 50)) - 128 ; here the product is an integer
BuildFrom(q) == IF q[1] = 0 THEN 0
                ELSE LET num == 255 * (q[1] + 50 * q[2])   den == 100 * q[2] IN
                     (num \div den) - 128
ExactProduct(q) == (255 * (q[1] + 50 * q[2])) % (100 * q[2]) = 0
ASSUME \A x \in (-128)..127 : x # 0 => ExactProduct(CentsOf(x))
ASSUME \A x \in (-128)..127 : BuildFrom(CentsOf(x)) = x

Tables == [
  akai |-> [b \in 1..256 |-> IF AkaiValid(b - 1) THEN AkaiToAscii(b - 1) ELSE -1],
  ascii |-> [c \in 1..256 |-> IF AsciiValid(c - 1) THEN AsciiToAkai(c - 1) ELSE -1],
  notes |-> [b \in 1..256 |-> LET n == FromByte(b - 1) IN [deg |-> n.deg, sharp |-> n.sharp, oct |-> n.oct, back |-> ToByte(n), parses |-> TextParses(n)]],
  cents |-> [b \in 1..256 |-> LET x == Signed(b - 1) IN [x |-> x, num |-> CentsOf(x)[1], den |-> CentsOf(x)[2], back |-> BuildFrom(CentsOf(x))]] ]
ASSUME PrintT(<<"CASE", ToJson(Tables)>>)

VARIABLE x
Init == x = 0
Next == UNCHANGED x
=============================================================================
