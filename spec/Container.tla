----------------------------- MODULE Container -----------------------------
(***************************************************************************)
(* Containers of a disc image and the detection cascade                    *)
(* (actions.py determine_image_type / attempt_parse_cue_sheet,             *)
(*  alcohol/mdf.py, alcohol/mdx.py):                                       *)
(*    text probe -> cue sheet (data track -> recurse on the bin; all audio *)
(*    -> CDDA) -> raw 2352-byte sectors -> MDX header -> Roland id area    *)
(*    -> AKAI                                                              *)
(* A logical image is a sequence of byte tokens whose first token tells    *)
(* its kind ("R" Roland id area / "K" anything else = AKAI).  Encodings    *)
(* are defined as functions on sequences, decodings as the views the tool  *)
(* lays over the file (MdfStream, MdxStream).  Geometry is scaled:         *)
(* raw sector = Hdr + Body + Trl tokens, MDX header = XHdr tokens.        *)
(***************************************************************************)
EXTENDS Integers, Sequences, FiniteSets, TLC, Json

CONSTANTS Hdr, Body, Trl, XHdr, MaxLen, EmitCases

VARIABLES img, enc
vars == <<img, enc>>

Encodings == {"raw", "mdf", "mdx", "cue_raw", "cue_mdf", "cue_audio"}
Zeros(n) == [k \in 1..n |-> "0"]
SectorsOf(s) == (Len(s) + Body - 1) \div Body
Chunk(s, j) == LET c == SubSeq(s, (j - 1) * Body + 1, IF j * Body < Len(s) THEN j * Body ELSE Len(s)) IN c \o Zeros(Body - Len(c))
RECURSIVE EncMdfRec(_, _)
EncMdfRec(s, j) == IF j > SectorsOf(s) THEN <<>>
                   ELSE (<<"SYNC">> \o Zeros(Hdr - 1)) \o Chunk(s, j) \o Zeros(Trl) \o EncMdfRec(s, j + 1)
EncMdf(s) == EncMdfRec(s, 1)
EncMdx(s) == <<"MDX", Len(s) + XHdr>> \o Zeros(XHdr - 2) \o s          \* second token: the eof field

\* a file as the tool sees it: [text |-> is it ASCII text with a FILE line, tracks, bin |-> bytes]
File(s, e) ==
  CASE e = "raw"     -> [text |-> FALSE, data |-> FALSE, bytes |-> s]
    [] e = "mdf"     -> [text |-> FALSE, data |-> FALSE, bytes |-> EncMdf(s)]
    [] e = "mdx"     -> [text |-> FALSE, data |-> FALSE, bytes |-> EncMdx(s)]
    [] e = "cue_raw" -> [text |-> TRUE, data |-> TRUE, bytes |-> s]
    [] e = "cue_mdf" -> [text |-> TRUE, data |-> TRUE, bytes |-> EncMdf(s)]
    [] OTHER         -> [text |-> TRUE, data |-> FALSE, bytes |-> s]         \* cue_audio: every track AUDIO

\* views
DecMdf(b) == LET n == (Len(b) \div (Hdr + Body + Trl)) * Body IN
             [k \in 1..n |-> b[((k - 1) \div Body) * (Hdr + Body + Trl) + Hdr + ((k - 1) % Body) + 1]]
DecMdx(b) == SubSeq(b, XHdr + 1, b[2])
IsMdf(b) == Len(b) >= 1 /\ b[1] = "SYNC"
IsMdx(b) == Len(b) >= 2 /\ b[1] = "MDX"

\* determine_image_type on the bytes of a (bin) file
Probe(b) == LET v == IF IsMdf(b) THEN DecMdf(b) ELSE IF IsMdx(b) THEN DecMdx(b) ELSE b IN
            [kind |-> IF Len(v) >= 1 /\ v[1] = "R" THEN "roland" ELSE "akai", view |-> v]
Detect(f) == IF f.text THEN (IF f.data THEN Probe(f.bytes) ELSE [kind |-> "cdda", view |-> f.bytes])
             ELSE Probe(f.bytes)

Init == img = <<>> /\ enc = "raw"
Grow == Len(img) < MaxLen /\ \E t \in (IF img = <<>> THEN {"R", "K"} ELSE {"a", "b"}) : img' = Append(img, t) /\ UNCHANGED enc
Wrap == \E e \in Encodings : enc' = e /\ UNCHANGED img
Next == Grow \/ Wrap
Spec == Init /\ [][Next]_vars

IsPrefixPadded(v, s) == Len(v) >= Len(s) /\ SubSeq(v, 1, Len(s)) = s /\ \A k \in (Len(s) + 1)..Len(v) : v[k] = "0"
SameKind == (img # <<>> /\ enc # "cue_audio") => Detect(File(img, enc)).kind = (IF img[1] = "R" THEN "roland" ELSE "akai")
SameLogicalBytes == (img # <<>> /\ enc # "cue_audio") =>
                       LET v == Detect(File(img, enc)).view IN
                       /\ IsPrefixPadded(v, img)
                       /\ Len(v) - Len(img) < Body                 \* at most the padding of the last raw sector
                       /\ (enc \in {"raw", "mdx", "cue_raw"} => v = img)
AllAudioCueIsCdda == enc = "cue_audio" => Detect(File(img, enc)).kind = "cdda"
Emit == (EmitCases /\ img # <<>>) => PrintT(<<"CASE", ToJson([kind |-> Detect(File(img, enc)).kind, enc |-> enc, len |-> Len(img),
                                                             pad |-> Len(Detect(File(img, enc)).view) - Len(img)])>>)
=============================================================================
