-------------------------------- MODULE Cue --------------------------------
(***************************************************************************)
(* Cue sheets and CDDA images.                                             *)
(*                                                                         *)
(*  cuesheet.py   get_nonempty_entry / CueSheetTrackAdapter.parse /        *)
(*                CueSheetFileAdapter.parse / parse_cue_sheet: a hand      *)
(*                written line consumer with push-back, transcribed as     *)
(*                recursive operators over the list of remaining lines     *)
(*  cdda/image.py from_bin_cue: pairwise walk over the AUDIO tracks,       *)
(*                MSF arithmetic, last track to the end of the bin         *)
(*  actions.py    attempt_parse_cue_sheet: data track -> sampler image,    *)
(*                all audio -> CDDA                                        *)
(*                                                                         *)
(* Lines are abstract records [c, a, b, m, s, f]; the classifier (the      *)
(* regular expressions: case-insensitive keywords, leading blanks) is the  *)
(* harness's rendering obligation, checked by conformance.                 *)
(*   c = "FILE"  a = bin name                                              *)
(*   c = "TRACK" a = number, b = mode ("AUDIO" | "MODE1/2352")             *)
(*   c = "INDEX" a = number, m:s:f                                         *)
(*   c = "TITLE" b = title                                                 *)
(*   c = "OTHER" b = keyword (REM, PERFORMER, FLAGS, PREGAP ...)           *)
(*   c = "BLANK"                                                           *)
(***************************************************************************)
EXTENDS Integers, Sequences, FiniteSets, TLC, Json

CONSTANTS MaxTracks, Times,       \* Times: sequence of <<m, s, f>> in increasing order to draw first indices from
          BinLens,                \* set of bin lengths (bytes beyond the last track's offset are derived)
          Others,                 \* unknown lines that may be inserted (raw text)
          Repeats,                \* how many copies of the inserted line are inserted at the chosen position (set of counts)
          Dense,                  \* TRUE: one deterministic sheet of MaxTracks titled tracks at Times[1..MaxTracks] (long sheets)
          WithData,               \* allow a leading data track (sampler image behind a cue sheet)
          EmitCases

VARIABLES sheet,      \* canonical sheet: sequence of lines
          ins,        \* the cosmetic insertion applied: [pos, line] or NoIns
          binlen, phase
vars == <<sheet, ins, binlen, phase>>

L(c, a, b, m, s, f) == [c |-> c, a |-> a, b |-> b, m |-> m, s |-> s, f |-> f]
FileLine(n) == L("FILE", 0, n, 0, 0, 0)
TrackLine(n, mode) == L("TRACK", n, mode, 0, 0, 0)
IndexLine(n, t) == L("INDEX", n, "", t[1], t[2], t[3])
TitleLine(t) == L("TITLE", 0, t, 0, 0, 0)
OtherLine(k) == L("OTHER", 0, k, 0, 0, 0)
BlankLine == L("BLANK", 0, "", 0, 0, 0)
NoIns == [pos |-> 0, line |-> BlankLine, rep |-> 1]

\* ---- the parser ---------------------------------------------------------------------
\* get_nonempty_entry: <<line or "none", remaining lines>>
RECURSIVE NextNonEmpty(_)
NextNonEmpty(ls) == IF ls = <<>> THEN [got |-> FALSE, line |-> BlankLine, rest |-> <<>>]
                    ELSE IF Head(ls).c = "BLANK" THEN NextNonEmpty(Tail(ls))
                    ELSE [got |-> TRUE, line |-> Head(ls), rest |-> Tail(ls)]

\* the `while len(lines)` loop of CueSheetTrackAdapter.parse
RECURSIVE TrackBody(_, _)
TrackBody(tr, ls) ==
  IF ls = <<>> THEN [track |-> tr, rest |-> <<>>]
  ELSE LET n == NextNonEmpty(ls) IN
       IF ~n.got THEN [track |-> tr, rest |-> n.rest]
       ELSE IF n.line.c = "TRACK" THEN [track |-> tr, rest |-> <<n.line>> \o n.rest]          \* push back
       ELSE IF n.line.c = "INDEX" THEN TrackBody([tr EXCEPT !.indices = Append(@, <<n.line.a, n.line.m, n.line.s, n.line.f>>)], n.rest)
       ELSE IF n.line.c = "TITLE" THEN TrackBody([tr EXCEPT !.title = n.line.b, !.titled = TRUE], n.rest)
       ELSE TrackBody(tr, n.rest)                                                             \* unparsed

TrackParse(ls) ==
  LET n == NextNonEmpty(ls) IN
  IF ~n.got \/ n.line.c # "TRACK" THEN [bad |-> TRUE, track |-> <<>>, rest |-> <<>>]
  ELSE LET r == TrackBody([num |-> n.line.a, mode |-> n.line.b, title |-> "", titled |-> FALSE, indices |-> <<>>], n.rest)
       IN [bad |-> FALSE, track |-> r.track, rest |-> r.rest]

RECURSIVE FileBody(_, _)
FileBody(tracks, ls) ==
  IF ls = <<>> THEN [bad |-> FALSE, tracks |-> tracks]
  ELSE LET n == NextNonEmpty(ls) IN
       IF ~n.got THEN [bad |-> FALSE, tracks |-> tracks]
       ELSE LET t == TrackParse(<<n.line>> \o n.rest) IN
            IF t.bad THEN [bad |-> TRUE, tracks |-> <<>>] ELSE FileBody(Append(tracks, t.track), t.rest)

\* parse_cue_sheet: skip lines until a FILE line; the first file is the result
RECURSIVE Parse(_)
Parse(ls) ==
  IF ls = <<>> THEN [bad |-> TRUE, bin |-> "", tracks |-> <<>>]
  ELSE LET n == NextNonEmpty(ls) IN
       IF ~n.got THEN [bad |-> TRUE, bin |-> "", tracks |-> <<>>]
       ELSE IF n.line.c = "FILE" THEN LET fb == FileBody(<<>>, n.rest) IN
                                      [bad |-> fb.bad, bin |-> n.line.b, tracks |-> fb.tracks]
       ELSE Parse(n.rest)

\* ---- CDDA image ------------------------------------------------------------------------
Frames(ix) == (60 * ix[2] + ix[3]) * 75 + ix[4]
IsAudio(t) == t.mode = "AUDIO"
AudioTracks(m) == SelectSeq(m.tracks, IsAudio)
AllAudio(m) == \A k \in 1..Len(m.tracks) : IsAudio(m.tracks[k])
Kind(m) == IF m.bad THEN "not_a_cue" ELSE IF AllAudio(m) THEN "cdda" ELSE "sampler"

\* track windows [off, off+size) in the bin, for sheets whose audio tracks all carry an index
CddaWindows(m, blen) ==
  LET at == AudioTracks(m) IN
  [k \in 1..Len(at) |->
     LET off == 2352 * Frames(at[k].indices[1]) IN
     [title |-> IF at[k].titled /\ at[k].title # "" THEN at[k].title ELSE "", untitled |-> ~(at[k].titled /\ at[k].title # ""), pos |-> k,
      off |-> off,
      size |-> IF k < Len(at) THEN 2352 * Frames(at[k + 1].indices[1]) - off ELSE blen - off,
      pcm |-> IF k < Len(at) THEN 2352 * Frames(at[k + 1].indices[1]) - off ELSE ((blen - off) \div 4) * 4,
      frames |-> IF k < Len(at) THEN 588 * (Frames(at[k + 1].indices[1]) - Frames(at[k].indices[1])) ELSE (blen - off) \div 4]]

\* ---- building sheets --------------------------------------------------------------------
Apply(sh, i) == IF i.pos = 0 THEN sh ELSE SubSeq(sh, 1, i.pos - 1) \o [k \in 1..i.rep |-> i.line] \o SubSeq(sh, i.pos, Len(sh))
Lines == Apply(sheet, ins)

NTracks(sh) == Len(SelectSeq(sh, LAMBDA l : l.c = "TRACK"))
\* one more than the latest index time used so far (the next track must start later)
LastTime(sh) == LET ix == SelectSeq(sh, LAMBDA l : l.c = "INDEX") IN
                IF ix = <<>> THEN 0 ELSE LET l == ix[Len(ix)] IN Frames(<<1, l.m, l.s, l.f>>) + 1

Init == /\ sheet = <<FileLine("image.bin")>> /\ ins = NoIns /\ binlen = 0 /\ phase = "build"

AddTrack ==
  /\ phase = "build" /\ NTracks(sheet) < MaxTracks
  /\ \E ti \in 1..Len(Times) : \E titled \in BOOLEAN, pre \in BOOLEAN, extra \in BOOLEAN :
       /\ Dense => ti = NTracks(sheet) + 1 /\ titled /\ ~pre /\ (extra <=> ti % 2 = 0)
       /\ Frames(<<1>> \o Times[ti]) + 1 > LastTime(sheet)
       /\ pre => ti < Len(Times)             \* INDEX 00 at Times[ti], INDEX 01 at the next time of the list
       /\ LET n == NTracks(sheet) + 1
              mode == IF WithData /\ n = 1 THEN "MODE1/2352" ELSE "AUDIO"
              t == Times[ti]
          IN sheet' = sheet \o <<TrackLine(n, mode)>>
                        \o (IF titled THEN <<TitleLine(IF n <= 3 THEN <<"Intro", "Second Song", "03 - Outro">>[n] ELSE "Track " \o ToString(n))>> ELSE <<>>)
                        \o (IF pre THEN <<IndexLine(0, t)>> ELSE <<>>)      \* pregap index listed first: it is the first index
                        \o <<IndexLine(1, IF pre THEN Times[ti + 1] ELSE t)>>
                        \o (IF extra THEN <<IndexLine(2, LET u == IF pre THEN Times[ti + 1] ELSE t IN <<u[1], u[2] + 1, u[3]>>)>> ELSE <<>>)
  /\ UNCHANGED <<ins, binlen, phase>>

\* cosmetic insertions the property allows: blank lines anywhere; unknown lines before FILE or inside a track
AllowedPos(sh, line) ==
  IF line.c = "BLANK" THEN 1..(Len(sh) + 1)
  ELSE {1} \cup {p \in 2..(Len(sh) + 1) : \E q \in 1..(p - 1) : sh[q].c = "TRACK"}

Decorate ==
  /\ phase = "build" /\ NTracks(sheet) >= 1 /\ (Dense => NTracks(sheet) = MaxTracks)
  /\ \E line \in {BlankLine} \cup {OtherLine(k) : k \in Others} : \E p \in AllowedPos(sheet, line) \cup {0} : \E r \in Repeats :
        /\ Dense => p \in {0, 1, Len(sheet) \div 2, Len(sheet) + 1}        \* a long sheet is decorated at a few places only
        /\ ins' = IF p = 0 THEN NoIns ELSE [pos |-> p, line |-> line, rep |-> r]
  /\ \E bl \in BinLens : binlen' = 2352 * (LastTime(sheet) - 1) + bl
  /\ phase' = "done" /\ UNCHANGED sheet

Next == AddTrack \/ Decorate
Spec == Init /\ [][Next]_vars

\* ---- properties ------------------------------------------------------------------------------
Meaning(ls) == LET p == Parse(ls) IN
  [bad |-> p.bad, bin |-> p.bin,
   tracks |-> [k \in 1..Len(p.tracks) |-> [num |-> p.tracks[k].num, mode |-> p.tracks[k].mode,
                                           title |-> p.tracks[k].title, titled |-> p.tracks[k].titled,
                                           indices |-> p.tracks[k].indices]]]

\* C17: the decorated sheet means what the canonical sheet means
MeaningUnchanged == phase = "done" => Meaning(Lines) = Meaning(sheet) /\ ~Meaning(sheet).bad
NoFileLineIsNotCue == Parse(Tail(sheet)).bad            \* without its FILE line nothing is a cue sheet

\* C03: windows tile the bin from the first track on
WindowsTile ==
  (phase = "done" /\ ~WithData) =>
     LET w == CddaWindows(Meaning(Lines), binlen) IN
     /\ \A k \in 1..(Len(w) - 1) : w[k].off + w[k].size = w[k + 1].off /\ w[k].size > 0 /\ w[k].pcm = w[k].size
     /\ Len(w) > 0 => /\ w[Len(w)].off + w[Len(w)].size = binlen
                      /\ w[Len(w)].pcm % 4 = 0 /\ w[Len(w)].size - w[Len(w)].pcm \in 0..3
     /\ Kind(Meaning(Lines)) = "cdda"
DataTrackCueIsSampler == (phase = "done" /\ WithData) => Kind(Meaning(Lines)) = "sampler"

Emit == (EmitCases /\ phase = "done") =>
   PrintT(<<"CASE", ToJson([lines |-> IF ins.rep > 3 THEN <<>> ELSE Lines,        \* a bulk insertion is expanded by the reader
                            canonical |-> sheet, ins |-> ins, binlen |-> binlen,
                            meaning |-> Meaning(sheet), kind |-> Kind(Meaning(sheet)),
                            windows |-> IF WithData THEN <<>> ELSE CddaWindows(Meaning(sheet), binlen)])>>)
=============================================================================
