------------------------------- MODULE Cursor -------------------------------
(* The per-view cursor arithmetic of util/stream.py for ARBITRARY window sizes (unbounded integers):
   seek clamps, read clips, position never leaves [0, size].  Checked with Apalache as an inductive invariant:
   Init => Inv (length 0) and Inv /\ Next => Inv' (length 1). *)
EXTENDS Integers

VARIABLES
  \* @type: Int;
  size,
  \* @type: Int;
  pos,
  \* @type: Int;
  lastLen

Min(a, b) == IF a < b THEN a ELSE b
Max(a, b) == IF a > b THEN a ELSE b

Inv == size >= 0 /\ pos >= 0 /\ pos <= size /\ lastLen >= 0 /\ lastLen <= size

\* arbitrary state satisfying the invariant (for the inductive step)
IndInit == size \in Int /\ pos \in Int /\ lastLen \in Int /\ Inv
Init == size \in Nat /\ pos = 0 /\ lastLen = 0

Seek == \E off \in Int, whence \in 0..2 :
          LET start == IF whence = 1 THEN pos ELSE IF whence = 2 THEN size ELSE 0
              np == Max(0, Min(start + off, size))
          IN pos' = np /\ lastLen' = 0 /\ UNCHANGED size
Read == \E n \in Nat :
          LET t == Max(0, Min(size - pos, n))
          IN pos' = pos + t /\ lastLen' = t /\ UNCHANGED size
Next == Seek \/ Read
\* the clauses of C08 that are pure arithmetic
ReadClips == lastLen <= size
=============================================================================
