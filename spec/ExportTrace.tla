----------------------------- MODULE ExportTrace -----------------------------
(***************************************************************************)
(* Trace validation of the export-level protocol (structural.py            *)
(* ExportManager; hooks SetLevel / AddSample / Write / FinishLevel) for    *)
(* C05 / C06 / C16: within one export run                                  *)
(*   - a level change never drops samples that were added but not written  *)
(*   - every Write delivers data streams that were added at this level and *)
(*     not yet written (each sample accounted for exactly once)            *)
(*   - no path is written twice                                            *)
(*   - at FinishLevel nothing is left pending                              *)
(* Batch mode: lines carry a trace id `tid`; state is reset when it        *)
(* changes.  Rejected lines are reported with the failing clause names;    *)
(* the batch must be consumed completely (POSTCONDITION).                  *)
(***************************************************************************)
EXTENDS Integers, Sequences, FiniteSets, TLC, Json, IOUtils

TraceLog == ndJsonDeserialize(IOEnv.TRACE_FILE)

VARIABLES l, tid, pending, written, rejected
vars == <<l, tid, pending, written, rejected>>

SetOfSeq(s) == {s[k] : k \in 1..Len(s)}
Init == l = 1 /\ tid = -1 /\ pending = {} /\ written = {} /\ rejected = <<>>

Step ==
  /\ l <= Len(TraceLog)
  /\ LET e == TraceLog[l]
         fresh == e.tid # tid
         pend == IF fresh THEN {} ELSE pending
         wr == IF fresh THEN {} ELSE written
         bad ==
           CASE e.event = "SetLevel" -> (IF e.pending = 0 /\ pend = {} THEN {} ELSE {"level_change_drops_samples"})
             [] e.event = "AddSample" -> (IF SetOfSeq(e.streams) \cap pend = {} THEN {} ELSE {"sample_added_twice"})
             [] e.event = "Write" -> (IF SetOfSeq(e.streams) \subseteq pend THEN {} ELSE {"write_of_unknown_or_already_written_sample"})
                                     \cup (IF e.path \in wr THEN {"path_written_twice"} ELSE {})
             [] e.event = "FinishLevel" -> (IF e.pending = 0 /\ pend = {} THEN {} ELSE {"samples_left_unwritten"})
             [] OTHER -> {}
     IN /\ pending' = CASE e.event = "SetLevel" -> {}
                        [] e.event = "AddSample" -> pend \cup SetOfSeq(e.streams)
                        [] e.event = "Write" -> pend \ SetOfSeq(e.streams)
                        [] e.event = "FinishLevel" -> {}
                        [] OTHER -> pend
        /\ written' = IF e.event = "Write" THEN wr \cup {e.path} ELSE wr
        /\ rejected' = IF bad = {} THEN rejected ELSE Append(rejected, [line |-> l, tid |-> e.tid, clauses |-> bad])
        /\ tid' = e.tid /\ l' = l + 1
Spec == Init /\ [][Step]_vars

Report == (l = Len(TraceLog) + 1) => PrintT(<<"CASE", ToJson([lines |-> Len(TraceLog), rejected |-> rejected])>>)
TraceAccepted == TLCGet("stats").diameter = Len(TraceLog) + 1
=============================================================================
