-------------------------------- MODULE Faults --------------------------------
(***************************************************************************)
(* Fault sequences for C13 / C14: which structural site of an image is     *)
(* overwritten with which value.  The harness supplies, for a concrete     *)
(* generated image, the number of candidate values of every site (sites    *)
(* are FAT/SAT words, directory pointers, counts, sizes, type bytes,       *)
(* next-keygroup addresses, cue lines ...; values are each special word,   *)
(* each in-range link, self links, extremes).  A fault sequence never      *)
(* touches a site twice.  TLC enumerates all single faults and all (or     *)
(* simulated) multi-fault sequences.                                       *)
(***************************************************************************)
EXTENDS Integers, Sequences, FiniteSets, TLC, Json

CONSTANTS NVals,        \* sequence: NVals[s] = number of candidate values of site s
          MaxFaults, EmitCases

VARIABLE faults
Init == faults = <<>>
SitesOf(f) == {f[k][1] : k \in 1..Len(f)}
Add == /\ Len(faults) < MaxFaults
       /\ \E s \in 1..Len(NVals) : \E v \in 1..NVals[s] :
            /\ s \notin SitesOf(faults)
            /\ (faults # <<>> => s > faults[Len(faults)][1])      \* sites in increasing order: sets, not permutations
            /\ faults' = Append(faults, <<s, v>>)
Next == Add
Spec == Init /\ [][Next]_faults
DistinctSites == Cardinality(SitesOf(faults)) = Len(faults)
Emit == (EmitCases /\ faults # <<>>) => PrintT(<<"CASE", ToJson([faults |-> faults])>>)
=============================================================================
