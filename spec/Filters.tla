------------------------------ MODULE Filters ------------------------------
(***************************************************************************)
(* Streaming de-emphasis filters (filters/fir.pyx, iir.pyx, common.py).    *)
(*                                                                         *)
(*  kind "fir"    FirFilter(h, delay_offset): x_prev carried between       *)
(*                blocks, process = valid convolution of x_prev ++ block,  *)
(*                get_remaining = convolution of x_prev ++ zeros(m0),      *)
(*                reset_state                                              *)
(*  kind "csfir"  ChickSysCustomFirFilter: same streaming, convolution     *)
(*                with per-term rounding  round(x*h/k)  (half away from    *)
(*                zero) and clamping to int16                              *)
(*  kind "iir"    IirFilter: direct form, x/y windows carried              *)
(*                (integer coefficients, A[0] = 1: exact)                  *)
(*                                                                         *)
(* One action = one call (Process(block), Flush).  The declarative meaning *)
(* Ref(f, sig) is the one-block output defined directly on the zero-       *)
(* extended signal.  C19: for every ordered split of the signal into       *)
(* non-empty blocks, out after Flush = Ref, and its length = Len(sig).     *)
(*                                                                         *)
(* Named deviation FirHistoryFromFullWindow (D13): TRUE = the history kept *)
(* is the tail of x_prev ++ block; FALSE (as implemented) = the tail of    *)
(* the new block only (a block shorter than N-1 loses history, N = 1 keeps *)
(* the whole block).                                                       *)
(***************************************************************************)
EXTENDS Integers, Sequences, FiniteSets, TLC, Json

CONSTANTS FilterSet,     \* set of [kind, h, m0, k, b, a]
          Signals,       \* set of integer sequences
          FirHistoryFromFullWindow,
          EmitCases

VARIABLES f, sig, pos, xprev, yprev, out, blocks, phase
vars == <<f, sig, pos, xprev, yprev, out, blocks, phase>>

Zeros(n) == [k \in 1..n |-> 0]
Tail_(s, n) == IF n <= 0 THEN <<>> ELSE IF Len(s) <= n THEN s ELSE SubSeq(s, Len(s) - n + 1, Len(s))
Abs(x) == IF x < 0 THEN -x ELSE x
RoundDiv(a, k) == LET q == (2 * Abs(a) + k) \div (2 * k) IN IF a < 0 THEN -q ELSE q     \* round half away from zero, k > 0
Clamp16(v) == IF v > 32767 THEN 32767 ELSE IF v < -32768 THEN -32768 ELSE v

\* valid convolution of x with taps h: y[i] = sum_j h[j] * x[i + N - j]   (1-based, i in 1..Len(x)-N+1)
RECURSIVE Dot(_, _, _, _, _)
Dot(flt, x, i, j, acc) ==
  IF j > Len(flt.h) THEN acc
  ELSE LET term == flt.h[j] * x[i + Len(flt.h) - j] IN
       Dot(flt, x, i, j + 1, acc + (IF flt.kind = "csfir" THEN RoundDiv(term, flt.k) ELSE term))
ConvValid(flt, x) ==
  IF Len(x) < Len(flt.h) THEN <<>>
  ELSE [i \in 1..(Len(x) - Len(flt.h) + 1) |->
          LET v == Dot(flt, x, i, 1, 0) IN IF flt.kind = "csfir" THEN Clamp16(v) ELSE v]

M1(flt) == Len(flt.h) - flt.m0 - 1

\* ---- IIR (direct form) ---------------------------------------------------------------
\* xw: previous inputs, newest first, length Len(b)-1 ; yw: previous outputs, newest first, length Len(a)-1
RECURSIVE IirRun(_, _, _, _, _)
IirRun(flt, x, xw, yw, acc) ==
  IF x = <<>> THEN [out |-> acc, xw |-> xw, yw |-> yw]
  ELSE LET xs == <<Head(x)>> \o xw
           RECURSIVE SB(_)
           SB(k) == IF k = 0 THEN 0 ELSE SB(k - 1) + flt.b[k] * xs[k]
           RECURSIVE SA(_)
           SA(k) == IF k = 0 THEN 0 ELSE SA(k - 1) + flt.a[k + 1] * yw[k]
           y == SB(Len(flt.b)) - SA(Len(flt.a) - 1)
       IN IirRun(flt, Tail(x), SubSeq(xs, 1, Len(flt.b) - 1), SubSeq(<<y>> \o yw, 1, Len(flt.a) - 1), Append(acc, y))

\* ---- declarative meaning ------------------------------------------------------------------
Ref(flt, s) == IF flt.kind = "iir" THEN IirRun(flt, s, Zeros(Len(flt.b) - 1), Zeros(Len(flt.a) - 1), <<>>).out
               ELSE ConvValid(flt, Zeros(M1(flt)) \o s \o Zeros(flt.m0))

\* ---- actions ---------------------------------------------------------------------------------
Init == /\ f \in FilterSet /\ sig \in Signals /\ pos = 0 /\ out = <<>> /\ blocks = <<>> /\ phase = "feed"
        /\ xprev = IF f.kind = "iir" THEN Zeros(Len(f.b) - 1) ELSE Zeros(M1(f))
        /\ yprev = IF f.kind = "iir" THEN Zeros(Len(f.a) - 1) ELSE <<>>

Process(n) ==
  /\ phase = "feed" /\ n >= 1 /\ pos + n <= Len(sig)
  /\ LET blk == SubSeq(sig, pos + 1, pos + n) IN
     IF f.kind = "iir"
       THEN LET r == IirRun(f, blk, xprev, yprev, <<>>) IN
            out' = out \o r.out /\ xprev' = r.xw /\ yprev' = r.yw
       ELSE LET full == xprev \o blk IN
            /\ out' = out \o ConvValid(f, full)
            /\ xprev' = IF FirHistoryFromFullWindow THEN Tail_(full, Len(f.h) - 1)
                        ELSE IF Len(f.h) - 1 = 0 THEN blk          \* x[-0:] is the whole block
                        ELSE Tail_(blk, Len(f.h) - 1)
            /\ UNCHANGED yprev
  /\ pos' = pos + n /\ blocks' = Append(blocks, n) /\ UNCHANGED <<f, sig, phase>>

Flush ==
  /\ phase = "feed" /\ pos = Len(sig)
  /\ IF f.kind = "iir" THEN out' = out /\ xprev' = Zeros(Len(f.b) - 1) /\ yprev' = Zeros(Len(f.a) - 1)
     ELSE out' = out \o ConvValid(f, xprev \o Zeros(f.m0)) /\ xprev' = Zeros(M1(f)) /\ UNCHANGED yprev
  /\ phase' = "done" /\ UNCHANGED <<f, sig, pos, blocks>>

Next == (\E n \in 1..Len(sig) : Process(n)) \/ Flush
Spec == Init /\ [][Next]_vars

\* ---- C19 -----------------------------------------------------------------------------------------
SplitInvariant == phase = "done" => out = Ref(f, sig)
CountPreserved == phase = "done" => Len(out) = Len(sig)
Saturates == (phase = "done" /\ f.kind = "csfir") => \A k \in 1..Len(out) : out[k] >= -32768 /\ out[k] <= 32767
FlushResets == phase = "done" => xprev = (IF f.kind = "iir" THEN Zeros(Len(f.b) - 1) ELSE Zeros(M1(f)))

Emit == (EmitCases /\ phase = "done") =>
   PrintT(<<"CASE", ToJson([f |-> f, sig |-> sig, blocks |-> blocks, out |-> out, ref |-> Ref(f, sig)])>>)
=============================================================================
