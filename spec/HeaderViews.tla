---------------------------- MODULE HeaderViews ----------------------------
(***************************************************************************)
(* View rules (C20): what `ls` must print for an item, as a function of    *)
(* the values stored in the image.  (Record layouts are in Headers.tla.)   *)
(*                                                                         *)
(*  akai/sample.py   SampleAdapter: rate 0 -> 44100, active-loop filtering *)
(*                   (loop type not "inactive", duration > 0), loop end =  *)
(*                   stored loop-at point                                  *)
(*  akai/program.py, keygroup.py: header fields with their signedness and  *)
(*                   enumerations, keygroup chain, non-empty zones in      *)
(*                   stored order                                          *)
(*  roland sample_entry.py: mode / frequency-code table / loop mode names, *)
(*                   loop point = raw >> 8 (address) and raw & 255 (fine)  *)
(*  cdda/image.py    2 channels, 44100 Hz, frames                          *)
(* Values are what the harness extracts from the printed tree: integers as *)
(* every leaf as the printed TEXT (integers in decimal).                    *)
(***************************************************************************)
EXTENDS Integers, Sequences, FiniteSets, TLC

Bool(b) == IF b = 0 THEN "False" ELSE "True"
NoteNames == <<"A", "A#", "B", "C", "C#", "D", "D#", "E", "F", "F#", "G", "G#">>
FloorDiv(a, b) == IF a >= 0 THEN a \div b ELSE -((-a + b - 1) \div b)
Str(x) == ToString(x)
NoteText(b) == NoteNames[(b - 21) - 12 * FloorDiv(b - 21, 12) + 1] \o Str(FloorDiv(b - 21, 12))
Cents255(x) == Str(IF x = 0 THEN 0 ELSE 100 * x + 50)          \* printed cents * 255

\* ---- AKAI sample -------------------------------------------------------------------
AkaiLoopTypeName(t) == CASE t = 0 -> "Loop in release" [] t = 1 -> "Loop until release" [] t = 2 -> "No loop"
                         [] t = 3 -> "Play until end" [] OTHER -> "Loop as sample"
ActiveLoops(st) == IF st.loop_type = 2 THEN <<>>
                   ELSE LET act == SelectSeq(st.loops, LAMBDA lp : lp.loop_duration > 0) IN
                        [k \in 1..Len(act) |-> [loop_end |-> Str(act[k].loop_start), loop_duration |-> Str(act[k].loop_duration)]]
AkaiSampleView(st) ==
  [file_name |-> st.file_name, sample_name |-> st.sample_name,
   sample_type |-> IF st.id = 1 THEN "S1000 Sample" ELSE "S3000 Sample",
   sample_rate |-> Str(IF st.sampling_rate = 0 THEN 44100 ELSE st.sampling_rate),
   samples_cnt |-> Str(st.samples_cnt), start_sample |-> Str(st.play_start), end_sample |-> Str(st.play_end),
   pitch_semi |-> Str(st.pitch_offset_semi), pitch_cents_x255 |-> Cents255(st.pitch_offset_cents),
   note_pitch |-> NoteText(st.note_pitch),
   loop_type |-> AkaiLoopTypeName(st.loop_type), loops |-> ActiveLoops(st)]

\* ---- AKAI program -----------------------------------------------------------------------
PriorityName(p) == CASE p = 0 -> "Low" [] p = 1 -> "Normal" [] p = 2 -> "High" [] OTHER -> "Hold"
ReassignName(p) == IF p = 0 THEN "Oldest" ELSE "Quietiest"
OrWord(v, w) == IF v = 255 THEN w ELSE Str(v)
VoiceScale(b) == Str(CASE b = 0 -> -6 [] b = 1 -> 0 [] b = 2 -> 12 [] OTHER -> 0)
StereoScale(b) == Str(IF b = 1 THEN 6 ELSE 0)
ZoneLoopName(b) == CASE b = 1 -> "Loop in release" [] b = 2 -> "Loop until release" [] b = 3 -> "No loop"
                     [] b = 4 -> "Play until end" [] OTHER -> "Loop as sample"
ZoneView(z) == [sample_name |-> z.sample_name, low_velocity |-> z.low_velocity, high_velocity |-> z.high_velocity,
                tune_semitones |-> z.tune_semitones, loudness_offset |-> z.loudness_offset,
                filter_cutoff_offset |-> z.filter_cutoff_offset, pan_offset |-> z.pan_offset, loop_mode |-> ZoneLoopName(z.loop_mode)]
KeygroupView(kg) ==
  [low_key |-> NoteText(kg.low_key), high_key |-> NoteText(kg.high_key),
   tune_cents_x255 |-> Cents255(kg.tune_cents), tune_semitones |-> kg.tune_semitones,
   ints |-> kg.ints,                                   \* the plain integer fields, name -> value, printed as stored
   velocity_zone_crossfade |-> Bool(kg.velocity_zone_crossfade), hold_attack_until_loop |-> Bool(kg.hold_attack_until_loop),
   zones |-> LET nz == SelectSeq(kg.zones, LAMBDA z : z.sample_name # "") IN [k \in 1..Len(nz) |-> ZoneView(nz[k])]]
\* The keygroup chain (akai/program.py KeygroupLinkConstruct): the program file holds 150-byte keygroup blocks at
\* arbitrary addresses (st.blocks: sequence of [addr, kg], possibly including stale blocks that are not linked).
\* Parsing starts at first_keygroup_address (if it and the count are positive, else right behind the 72-byte header),
\* reads number_of_keygroups blocks, and after block i seeks to its next-keygroup address iff that address is
\* positive and i is not the last index; otherwise it continues directly behind the block just read.
BlockAt(st, a) == LET hits == {k \in 1..Len(st.blocks) : st.blocks[k].addr = a} IN
                  IF hits = {} THEN 0 ELSE CHOOSE k \in hits : TRUE
RECURSIVE ChainWalk(_, _, _, _)
ChainWalk(st, pos, i, acc) ==
  IF i >= st.number_of_keygroups THEN acc
  ELSE LET b == BlockAt(st, pos) IN
       IF b = 0 THEN acc                                   \* nothing stored there: the generator never produces this
       ELSE LET kg == st.blocks[b].kg
                \* a keygroup block is 38 + 28 * (stored number of velocity zones) bytes long: 150 for the usual 4 zones
                nxt == IF kg.next > 0 /\ i < st.number_of_keygroups - 1 THEN kg.next ELSE pos + 38 + 28 * Len(kg.zones)
            IN ChainWalk(st, nxt, i + 1, Append(acc, kg))
Keygroups(st) == ChainWalk(st, IF st.first_keygroup_address > 0 /\ st.number_of_keygroups > 0 THEN st.first_keygroup_address ELSE 72, 0, <<>>)

AkaiProgramView(st) ==
  [ints |-> st.ints,
   midi_channel |-> OrWord(st.midi_channel, "Omni"), aux_output_select |-> OrWord(st.aux_output_select, "Off"),
   priority |-> PriorityName(st.priority), voice_reassign |-> ReassignName(st.voice_reassign),
   low_key |-> NoteText(st.low_key), high_key |-> NoteText(st.high_key),
   keygroup_crossfade |-> Bool(st.keygroup_crossfade), fx_output |-> Bool(st.fx_output),
   stereo_coherence |-> Bool(st.stereo_coherence), lfo_desync |-> Bool(st.lfo_desync),
   tune_cents_x255 |-> Cents255(st.tune_cents),
   voice_output_scale_db |-> VoiceScale(st.voice_output_scale_db), stereo_output_scale_db |-> StereoScale(st.stereo_output_scale_db),
   key_temperaments |-> st.key_temperaments, number_of_keygroups |-> Str(st.number_of_keygroups),
   keygroups |-> LET ks == Keygroups(st) IN [k \in 1..Len(ks) |-> KeygroupView(ks[k])]]

\* ---- Roland sample ----------------------------------------------------------------------------
FreqOf(code) == <<48000, 44100, 24000, 22050, 30000, 15000>>[code + 1]
RolandLoopName(m) == <<"Forward End", "Forward Release", "Oneshot", "Forward Oneshot", "Alternate", "Reverse Oneshot", "Reverse Loop">>[m + 1]
\* the 32-bit raw loop point arrives as two 16-bit limbs <<hi, lo>> (TLC integers are 32-bit)
PointView(p) == [address |-> Str(p[1] * 256 + p[2] \div 256), fine |-> Str(p[2] % 256)]
RolandSampleView(st) ==
  [sample_mode |-> IF st.smode = 1 THEN "Stereo" ELSE "Mono", sampling_frequency |-> Str(FreqOf(st.freq)),
   loop_mode |-> RolandLoopName(st.loop_mode),
   sustain_loop_enable |-> st.sle, sustain_loop_tune |-> st.slt, release_loop_tune |-> st.rlt,
   original_key |-> NoteText(st.key),
   points |-> [k \in 1..5 |-> PointView(st.points[k])]]

\* ---- CDDA track ------------------------------------------------------------------------------------
CddaTrackView(st) == [num_channels |-> "2", sample_rate |-> "44100", bytes_per_sample |-> "2", num_audio_samples |-> Str(st.pcm_bytes \div 4),
                      title |-> st.title]

View(kind, st) == CASE kind = "akai_sample" -> AkaiSampleView(st)
                    [] kind = "akai_program" -> AkaiProgramView(st)
                    [] kind = "roland_sample" -> RolandSampleView(st)
                    [] OTHER -> CddaTrackView(st)
=============================================================================
