------------------------------ MODULE Headers ------------------------------
(***************************************************************************)
(* On-disk record layouts of the formats smpl_extract reads, as data.      *)
(* Single source of truth for the independent image writers of the harness *)
(* (dumped to JSON by TLC) and for the view rules of C20 (HeadersTrace).   *)
(*                                                                         *)
(* A layout is a sequence of <<name, width, kind>>; offsets are derived.   *)
(* kinds: "u8" "s8" "u16" "s16" "u24" "u32"  little-endian integers        *)
(*        "akai"  AKAI-charset string, space (0x0A) padded                 *)
(*        "ascii" ASCII string, NUL padded                                 *)
(*        "pad"   filler written as zero bytes, "padff" as 0xFF            *)
(*        "bytes" literal bytes supplied by the writer (magic, arrays)     *)
(* Array fields are "bytes"/"u8"-typed with width = element count * size   *)
(* and an element size given in ArrayElem.                                 *)
(***************************************************************************)
EXTENDS Naturals, Sequences, TLC, Json

RECURSIVE SumW(_, _)
SumW(l, k) == IF k = 0 THEN 0 ELSE SumW(l, k - 1) + l[k][2]
Total(l) == SumW(l, Len(l))
WithOffsets(l) == [k \in 1..Len(l) |-> [name |-> l[k][1], off |-> SumW(l, k - 1), width |-> l[k][2], kind |-> l[k][3]]]

\* ---- AKAI ------------------------------------------------------------------
AkaiPartitionHeader == <<
  <<"size", 2, "u16">>, <<"zero", 2, "pad">>, <<"magic", 194, "bytes">>,
  <<"chk1", 1, "u8">>, <<"chk2", 1, "u8">>, <<"tail", 2, "bytes">> >>        \* tail = 2F 00
AkaiVolumeEntry == << <<"name", 12, "akai">>, <<"type", 2, "u16">>, <<"start", 2, "u16">> >>
AkaiFileEntry == <<
  <<"name", 12, "akai">>, <<"pad0", 4, "pad">>, <<"file_type", 1, "u8">>, <<"size", 3, "u24">>,
  <<"start", 2, "u16">>, <<"pad1", 2, "pad">> >>
AkaiLoop == << <<"loop_start", 4, "u32">>, <<"loop_length_fine", 2, "u16">>,
               <<"loop_length_coarse", 4, "u32">>, <<"loop_duration", 2, "u16">> >>
AkaiSampleHeader == <<
  <<"id", 1, "u8">>, <<"pad0", 1, "pad">>, <<"note_pitch", 1, "u8">>, <<"sample_name", 12, "akai">>,
  <<"pad1", 4, "pad">>, <<"loop_type", 1, "u8">>, <<"pitch_offset_cents", 1, "s8">>,
  <<"pitch_offset_semi", 1, "s8">>, <<"pad2", 4, "pad">>, <<"samples_cnt", 4, "u32">>,
  <<"play_start", 4, "u32">>, <<"play_end", 4, "u32">>, <<"loops", 96, "bytes">>,
  <<"pad3", 4, "pad">>, <<"sampling_rate", 2, "u16">> >>
AkaiProgramHeader == <<
  <<"program_id", 1, "u8">>, <<"first_keygroup_address", 2, "u16">>, <<"program_name", 12, "akai">>,
  <<"midi_program_number", 1, "u8">>, <<"midi_channel", 1, "u8">>, <<"polyphony", 1, "u8">>,
  <<"priority", 1, "u8">>, <<"low_key", 1, "u8">>, <<"high_key", 1, "u8">>, <<"octave_shift", 1, "s8">>,
  <<"aux_output_select", 1, "u8">>, <<"mix_output_level", 1, "u8">>, <<"mix_output_pan", 1, "s8">>,
  <<"volume", 1, "u8">>, <<"vel_to_volume", 1, "s8">>, <<"key_to_volume", 1, "s8">>,
  <<"pres_to_volume", 1, "s8">>, <<"pan_lfo_rate", 1, "u8">>, <<"pan_lfo_depth", 1, "u8">>,
  <<"pan_lfo_delay", 1, "u8">>, <<"key_to_pan", 1, "s8">>, <<"lfo_rate", 1, "u8">>, <<"lfo_depth", 1, "u8">>,
  <<"lfo_delay", 1, "u8">>, <<"mod_to_lfo_depth", 1, "u8">>, <<"pres_to_lfo_depth", 1, "u8">>,
  <<"vel_to_lfo_depth", 1, "u8">>, <<"bend_to_pitch", 1, "u8">>, <<"pres_to_pitch", 1, "s8">>,
  <<"keygroup_crossfade", 1, "u8">>, <<"number_of_keygroups", 1, "u8">>, <<"pad0", 1, "pad">>,
  <<"key_temperaments", 12, "bytes">>, <<"fx_output", 1, "u8">>, <<"mod_to_pan", 1, "s8">>,
  <<"stereo_coherence", 1, "u8">>, <<"lfo_desync", 1, "u8">>, <<"pitch_law", 1, "u8">>,
  <<"voice_reassign", 1, "u8">>, <<"softped_to_volume", 1, "u8">>, <<"softped_to_attack", 1, "u8">>,
  <<"softped_to_filter", 1, "u8">>, <<"tune_cents", 1, "s8">>, <<"tune_semitones", 1, "s8">>,
  <<"key_to_lfo_rate", 1, "s8">>, <<"key_to_lfo_depth", 1, "s8">>, <<"key_to_lfo_delay", 1, "s8">>,
  <<"voice_output_scale_db", 1, "u8">>, <<"stereo_output_scale_db", 1, "u8">> >>
AkaiVelocityZone == <<
  <<"sample_name", 12, "akai">>, <<"low_velocity", 1, "u8">>, <<"high_velocity", 1, "u8">>,
  <<"tune_cents", 1, "s8">>, <<"tune_semitones", 1, "s8">>, <<"loudness_offset", 1, "s8">>,
  <<"filter_cutoff_offset", 1, "s8">>, <<"pan_offset", 1, "s8">>, <<"loop_mode", 1, "u8">>,
  <<"padff", 2, "padff">>, <<"pad2c", 1, "bytes">>, <<"pad01", 1, "bytes">> >>
\* keygroup: fixed part before the zones, then num_velocity_zones zones, then the tail whose arrays
\* have one element per zone (written for 4 zones)
AkaiKeygroupHead == <<
  <<"block_id", 1, "u8">>, <<"next_keygroup_address", 2, "u16">>, <<"low_key", 1, "u8">>, <<"high_key", 1, "u8">>,
  <<"tune_cents", 1, "s8">>, <<"tune_semitones", 1, "s8">>, <<"filter_cutoff", 1, "u8">>,
  <<"key_to_filter_cutoff", 1, "u8">>, <<"velocity_to_filter_cutoff", 1, "s8">>,
  <<"pressure_to_filter_cutoff", 1, "s8">>, <<"env2_to_filter_cutoff", 1, "s8">>,
  <<"env1_attack", 1, "u8">>, <<"env1_decay", 1, "u8">>, <<"env1_sustain", 1, "u8">>, <<"env1_release", 1, "u8">>,
  <<"env1_velocity_to_attack", 1, "s8">>, <<"env1_velocity_to_release", 1, "s8">>,
  <<"env1_off_velocity_to_release", 1, "s8">>, <<"env1_key_to_decay_and_release", 1, "s8">>,
  <<"env2_attack", 1, "u8">>, <<"env2_decay", 1, "u8">>, <<"env2_sustain", 1, "u8">>, <<"env2_release", 1, "u8">>,
  <<"env2_velocity_to_attack", 1, "s8">>, <<"env2_velocity_to_release", 1, "s8">>,
  <<"env2_off_velocity_to_release", 1, "s8">>, <<"env2_key_to_decay_and_release", 1, "s8">>,
  <<"velocity_to_env2_to_filter_cutoff", 1, "s8">>, <<"env2_to_pitch", 1, "s8">>,
  <<"velocity_zone_crossfade", 1, "u8">>, <<"num_velocity_zones", 1, "u8">>, <<"padff", 2, "padff">> >>
AkaiKeygroupTail == <<
  <<"beat_detune", 1, "s8">>, <<"hold_attack_until_loop", 1, "u8">>, <<"enable_key_tracking", 4, "bytes">>,
  <<"aux_out_offset", 4, "bytes">>, <<"velocity_to_sample_start", 8, "bytes">>,
  <<"velocity_to_volume_offset", 1, "s8">>, <<"pad0", 1, "pad">> >>

\* ---- Roland S-7xx ----------------------------------------------------------
RolandIdArea == <<
  <<"revision", 4, "u32">>, <<"s7xx_str", 10, "ascii">>, <<"pad0", 2, "pad">>, <<"empty_str", 15, "ascii">>,
  <<"pad1", 1, "pad">>, <<"version_str", 31, "ascii">>, <<"pad2", 1, "pad">>, <<"copyright_str", 31, "ascii">>,
  <<"pad3", 1, "pad">>, <<"pad4", 160, "pad">>, <<"disk_name", 16, "ascii">>, <<"disk_capacity", 4, "u32">>,
  <<"num_volumes", 2, "u16">>, <<"num_performances", 2, "u16">>, <<"num_patches", 2, "u16">>,
  <<"num_partials", 2, "u16">>, <<"num_samples", 2, "u16">> >>
RolandDirEntry == <<
  <<"name", 16, "ascii">>, <<"file_type", 1, "u8">>, <<"file_attributes", 1, "u8">>,
  <<"forward_link_ptr", 2, "u16">>, <<"backward_link_ptr", 2, "u16">>, <<"link_id", 2, "u16">>,
  <<"reserved", 4, "u32">>, <<"fat_entry", 2, "u16">>, <<"num_clusters", 2, "u16">> >>
RolandVolumeParam == << <<"name", 16, "ascii">>, <<"pad0", 16, "pad">>, <<"performance_ptrs", 128, "bytes">>, <<"pad1", 96, "pad">> >>
RolandPerformanceParam == <<
  <<"name", 16, "ascii">>, <<"parts_patch_selection", 32, "bytes">>, <<"midi_channel_data", 16, "bytes">>,
  <<"parts_level", 32, "bytes">>, <<"parts_zone_lower", 32, "bytes">>, <<"parts_zone_upper", 32, "bytes">>,
  <<"parts_fade_width_lower", 32, "bytes">>, <<"parts_fade_width_upper", 32, "bytes">>,
  <<"parts_program_change", 2, "u16">>, <<"parts_pitch_bend", 2, "u16">>, <<"parts_modulation", 2, "u16">>,
  <<"parts_hold_pedal", 2, "u16">>, <<"parts_bend_range", 2, "u16">>, <<"parts_midi_volume", 2, "u16">>,
  <<"parts_after_touch_switch", 2, "u16">>, <<"parts_after_touch_mode", 2, "u16">>,
  <<"velocity_curve_type_data", 16, "bytes">>, <<"patch_list", 64, "bytes">>, <<"pad0", 192, "pad">> >>
RolandPatchParam == <<
  <<"name", 16, "ascii">>, <<"program_change_num", 1, "u8">>, <<"stereo_mix_level", 1, "u8">>, <<"total_pan", 1, "u8">>,
  <<"patch_level", 1, "u8">>, <<"output_assign_8", 1, "u8">>, <<"priority", 1, "u8">>, <<"cutoff", 1, "u8">>,
  <<"velocity_sensitivity", 1, "u8">>, <<"octave_shift", 1, "u8">>, <<"coarse_tune", 1, "u8">>, <<"fine_tune", 1, "u8">>,
  <<"smt_ctrl_selection", 1, "u8">>, <<"smt_ctrl_sensitivity", 1, "u8">>, <<"out_assign", 1, "u8">>,
  <<"analog_feel", 1, "u8">>, <<"pad0", 1, "pad">>, <<"keys_partial_selection", 88, "bytes">>, <<"pad1", 8, "pad">>,
  <<"keys_assign_type", 88, "bytes">>, <<"pad2", 8, "pad">>, <<"bender", 4, "bytes">>, <<"after_touch", 7, "bytes">>,
  <<"modulation", 4, "bytes">>, <<"pad3", 1, "pad">>, <<"controller", 8, "bytes">>, <<"pad4", 8, "pad">>,
  <<"partial_list", 176, "bytes">>, <<"pad5", 80, "pad">> >>
RolandPartialSample == <<
  <<"sample_selection", 2, "s16">>, <<"pitch_kf", 1, "u8">>, <<"sample_level", 1, "u8">>, <<"pan", 1, "s8">>,
  <<"coarse_tune", 1, "s8">>, <<"fine_tune", 1, "s8">>, <<"smt_velocity_lower", 1, "u8">>,
  <<"smt_fade_with_lower", 1, "u8">>, <<"smt_velocity_upper", 1, "u8">>, <<"smt_fade_with_upper", 1, "u8">> >>
RolandPartialParam == <<
  <<"name", 16, "ascii">>, <<"sample_1", 11, "bytes">>, <<"pad0", 1, "pad">>, <<"output_assign_8", 1, "u8">>,
  <<"stereo_mix_level", 1, "u8">>, <<"partial_level", 1, "u8">>, <<"output_assign_6", 1, "u8">>,
  <<"sample_2", 11, "bytes">>, <<"pad1", 1, "pad">>, <<"pan", 1, "u8">>, <<"course_tune", 1, "s8">>,
  <<"fine_tune", 1, "s8">>, <<"breath_cntrl", 1, "u8">>, <<"sample_3", 11, "bytes">>, <<"pad2", 5, "pad">>,
  <<"sample_4", 11, "bytes">>, <<"tvf", 21, "bytes">>, <<"tva", 16, "bytes">>, <<"lfo_generator", 9, "bytes">>,
  <<"pad3", 7, "pad">> >>
RolandSampleParam == <<
  <<"name", 16, "ascii">>, <<"start_sample", 4, "u32">>, <<"sustain_loop_start", 4, "u32">>,
  <<"sustain_loop_end", 4, "u32">>, <<"release_loop_start", 4, "u32">>, <<"release_loop_end", 4, "u32">>,
  <<"loop_mode", 1, "u8">>, <<"sustain_loop_enable", 1, "u8">>, <<"sustain_loop_tune", 1, "u8">>,
  <<"release_loop_tune", 1, "u8">>, <<"cluster_top", 2, "u16">>, <<"num_clusters", 2, "u16">>,
  <<"sample_options", 1, "u8">>, <<"original_key", 1, "u8">>, <<"pad0", 2, "pad">> >>

\* area offsets / entry sizes of the Roland image (roland/s7xx/data_types.py)
RolandAreas == [
  fat |-> 526336, fat_entries |-> 65536, data_fat |-> 2822144, cluster |-> 9216,
  volume_dir |-> 657408, performance_dir |-> 661504, patch_dir |-> 677888, partial_dir |-> 710656, sample_dir |-> 841728,
  volume_param |-> 1103872, performance_param |-> 1136640, patch_param |-> 1398784, partial_param |-> 1923072,
  sample_param |-> 2447360, data |-> 2840576 ]

Layouts == [
  akai_partition_header |-> WithOffsets(AkaiPartitionHeader),
  akai_volume_entry |-> WithOffsets(AkaiVolumeEntry),
  akai_file_entry |-> WithOffsets(AkaiFileEntry),
  akai_loop |-> WithOffsets(AkaiLoop),
  akai_sample_header |-> WithOffsets(AkaiSampleHeader),
  akai_program_header |-> WithOffsets(AkaiProgramHeader),
  akai_velocity_zone |-> WithOffsets(AkaiVelocityZone),
  akai_keygroup_head |-> WithOffsets(AkaiKeygroupHead),
  akai_keygroup_tail |-> WithOffsets(AkaiKeygroupTail),
  roland_id_area |-> WithOffsets(RolandIdArea),
  roland_dir_entry |-> WithOffsets(RolandDirEntry),
  roland_volume_param |-> WithOffsets(RolandVolumeParam),
  roland_performance_param |-> WithOffsets(RolandPerformanceParam),
  roland_patch_param |-> WithOffsets(RolandPatchParam),
  roland_partial_sample |-> WithOffsets(RolandPartialSample),
  roland_partial_param |-> WithOffsets(RolandPartialParam),
  roland_sample_param |-> WithOffsets(RolandSampleParam) ]

\* design facts: gap-free by construction (offsets are running sums); the totals are the record sizes
ASSUME Total(AkaiPartitionHeader) = 202
ASSUME Total(AkaiVolumeEntry) = 16
ASSUME Total(AkaiFileEntry) = 24
ASSUME Total(AkaiLoop) = 12
ASSUME Total(AkaiSampleHeader) = 140
ASSUME Total(AkaiProgramHeader) = 72
ASSUME Total(AkaiVelocityZone) = 24
ASSUME Total(AkaiKeygroupHead) + 4 * Total(AkaiVelocityZone) + Total(AkaiKeygroupTail) = 150
ASSUME Total(RolandIdArea) = 286
ASSUME Total(RolandDirEntry) = 32
ASSUME Total(RolandVolumeParam) = 256
ASSUME Total(RolandPerformanceParam) = 512
ASSUME Total(RolandPatchParam) = 512
ASSUME Total(RolandPartialSample) = 11
ASSUME Total(RolandPartialParam) = 128
ASSUME Total(RolandSampleParam) = 48
\* 202 + 100 * 16 + 2 * 11386 = 3 sectors - 2 bytes: AKAI data begins in sector 3
ASSUME 202 + 100 * 16 + 2 * 11386 = 3 * 8192 - 2
ASSUME RolandAreas.data_fat + 2 * RolandAreas.cluster = RolandAreas.data

ASSUME PrintT(<<"CASE", ToJson([layouts |-> Layouts, roland_areas |-> RolandAreas])>>)

VARIABLE x
Init == x = 0
Next == UNCHANGED x
=============================================================================
