---------------------------- MODULE HeadersTrace ----------------------------
(***************************************************************************)
(* Trace validation for C20: each line carries the values an independent   *)
(* writer STORED in an image for one item and the values the harness       *)
(* extracted from what the real `ls` PRINTED for it.  A line is accepted   *)
(* iff printed[k] = View(kind, stored)[k] for every key k of the view.     *)
(***************************************************************************)
EXTENDS HeaderViews, Json, IOUtils

TraceLog == ndJsonDeserialize(IOEnv.TRACE_FILE)
VARIABLES l, rejected
vars == <<l, rejected>>
Init == l = 1 /\ rejected = <<>>
Step == /\ l <= Len(TraceLog)
        /\ LET e == TraceLog[l]
               want == View(e.kind, e.stored)
               bad == {k \in DOMAIN want : k \notin DOMAIN e.printed \/ e.printed[k] # want[k]}
           IN rejected' = IF bad = {} THEN rejected ELSE Append(rejected, [line |-> l, id |-> e.id, keys |-> bad])
        /\ l' = l + 1
Spec == Init /\ [][Step]_vars
Report == (l = Len(TraceLog) + 1) => PrintT(<<"CASE", ToJson([lines |-> Len(TraceLog), rejected |-> rejected])>>)
TraceAccepted == TLCGet("stats").diameter = Len(TraceLog) + 1
=============================================================================
