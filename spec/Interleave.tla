----------------------------- MODULE Interleave -----------------------------
(***************************************************************************)
(* Schedules for C11: interleavings of operations on K data streams that   *)
(* share one file handle (the cursor machine itself is Streams.tla).       *)
(* Each stream has a budget of block reads; a schedule is complete when    *)
(* all budgets are used.  Optional seeks (rewind / to the middle / to the  *)
(* end) and listings of other directories (lazy realisation) may be        *)
(* interleaved.  Abstractly every stream has its own position; the         *)
(* invariant states what isolation means and is what the harness checks    *)
(* on the real streams: the k-th read of stream i returns the bytes at     *)
(* that stream's own position.                                             *)
(***************************************************************************)
EXTENDS Integers, Sequences, FiniteSets, TLC, Json

CONSTANTS K, Blocks, Sizes, Extras, MaxExtras, EmitCases
\* Sizes: set of read sizes; Extras: set of extra operations <<"seek", i, where>> / <<"ls", d, 0>>

VARIABLES left, sched, nextra
vars == <<left, sched, nextra>>

Init == left = [i \in 1..K |-> Blocks] /\ sched = <<>> /\ nextra = 0
Read(i, sz) == /\ left[i] > 0 /\ left' = [left EXCEPT ![i] = @ - 1]
               /\ sched' = Append(sched, <<"read", i, sz>>) /\ UNCHANGED nextra
Extra(e) == /\ nextra < MaxExtras /\ \E i \in 1..K : left[i] > 0
            /\ sched' = Append(sched, e) /\ nextra' = nextra + 1 /\ UNCHANGED left
Next == (\E i \in 1..K, sz \in Sizes : Read(i, sz)) \/ (\E e \in Extras : Extra(e))
Spec == Init /\ [][Next]_vars

Complete == \A i \in 1..K : left[i] = 0
ReadsOf(i) == Len(SelectSeq(sched, LAMBDA o : o[1] = "read" /\ o[2] = i))
BudgetRespected == \A i \in 1..K : ReadsOf(i) + left[i] = Blocks
Emit == (EmitCases /\ Complete) => PrintT(<<"CASE", ToJson([k |-> K, sched |-> sched])>>)
=============================================================================
