------------------------------ MODULE Listing ------------------------------
(***************************************************************************)
(* What `ls` prints for a leaf item (info.py InfoTree.print_tree): the     *)
(* nested description of a sample / program / track is flattened depth-    *)
(* first into rows "key: value", indented two columns per level, every     *)
(* line cut to the page width with a "..." mark, and the listing is capped *)
(* at max_rows rows with an announcement.                                  *)
(*                                                                         *)
(* One action per loop iteration of the code: Visit = one (key, value) of  *)
(* build_inner (a row is appended; a nested value pushes a frame), Print-  *)
(* Row = one iteration of the printing loop.  Next to the machine stands the   *)
(* declarative flattening Flat(item); TLC checks on every item of a small  *)
(* universe (nesting <= 2, <= 2 entries per level, empty / short / long    *)
(* strings, two page widths, two caps) that nothing is lost or reordered   *)
(* silently, that every line fits the page, that a cut line says so, and   *)
(* that a capped listing says so.  Strings are sequences of characters.    *)
(***************************************************************************)
EXTENDS Integers, Sequences, FiniteSets, TLC, Json

CONSTANTS Keys,          \* set of key strings (sequences of characters)
          Leaves,        \* set of leaf strings
          MaxEntries,    \* entries per mapping / list
          Depth,         \* nesting depth of the universe
          Widths, Caps,  \* page widths and row caps tried
          OffByOneCap,   \* deviation switch: TRUE = rows 0..cap are printed (cap + 1 rows), as the code does (i > max_rows)
          EmitCases

Str(s) == [t |-> "s", v |-> s]
RECURSIVE Items(_)
SeqsUpTo(S, n) == UNION {[1..k -> S] : k \in 0..n}
Injective(f) == \A a, b \in DOMAIN f : a # b => f[a] # f[b]
Items(d) == IF d = 0 THEN {Str(s) : s \in Leaves}
            ELSE LET sub == Items(d - 1) IN
                 sub \cup {[t |-> "m", v |-> [k \in DOMAIN ks |-> [key |-> ks[k], x |-> xs[k]]]]
                           : <<ks, xs>> \in {p \in SeqsUpTo(Keys, MaxEntries) \X SeqsUpTo(sub, MaxEntries) : Len(p[1]) = Len(p[2]) /\ Injective(p[1])}}
                     \cup {[t |-> "l", v |-> xs] : xs \in SeqsUpTo(sub, MaxEntries)}
Tops == {it \in Items(Depth) : it.t = "m"}            \* get_info() hands a mapping to the printer

Digits == <<"0", "1", "2", "3", "4", "5", "6", "7", "8", "9">>
IndexText(prev, k) == prev \o <<"[">> \o <<Digits[k]>> \o <<"]">>       \* f"{prev_key}[{i}]", i = k - 1 < 10
\* the (key, value) pairs of a container in order
Pairs(it, prev) == IF it.t = "m" THEN [k \in DOMAIN it.v |-> <<it.v[k].key, it.v[k].x>>]
                   ELSE [k \in DOMAIN it.v |-> <<IndexText(prev, k), it.v[k]>>]

\* a row: depth and the content columns
RowOf(key, val, depth) ==
  [depth |-> depth,
   cols |-> IF val.t = "s" THEN <<key \o <<":">>, val.v>>
            ELSE IF val.v = <<>> THEN <<key \o <<":">>, <<"N", "o", "n", "e">>>> ELSE <<key \o <<":">>>>]

\* ---- declarative flattening -------------------------------------------------------
RECURSIVE Flat(_, _, _), FlatFrom(_, _, _, _)
FlatFrom(it, prev, depth, k) ==
  IF k > Len(it.v) THEN <<>>
  ELSE LET p == Pairs(it, prev)[k] IN
       <<RowOf(p[1], p[2], depth)>> \o (IF p[2].t = "s" THEN <<>> ELSE Flat(p[2], p[1], depth + 1)) \o FlatFrom(it, prev, depth, k + 1)
Flat(it, prev, depth) == FlatFrom(it, prev, depth, 1)

RECURSIVE Join(_)
Join(cols) == IF cols = <<>> THEN <<>> ELSE IF Len(cols) = 1 THEN cols[1] ELSE cols[1] \o <<" ">> \o Join(Tail(cols))
Indent(d) == [k \in 1..(2 * d) |-> " "]                \* (" ",) * depth joined by " " and followed by " "
Text(row) == Indent(row.depth) \o Join(row.cols)
Cut(txt, w) == IF Len(txt) > w THEN SubSeq(txt, 1, w - 3) \o <<".", ".", ".">> ELSE txt

VARIABLES item, width, cap, stack, rows, pc, pi, lines
vars == <<item, width, cap, stack, rows, pc, pi, lines>>

Header == <<<<"I", "t", "e", "m">>, <<"V", "a", "l">>>>
Init == /\ item \in Tops /\ width \in Widths /\ cap \in Caps
        /\ stack = <<[it |-> item, prev |-> <<>>, depth |-> 0, k |-> 1]>>
        /\ rows = <<>> /\ pc = "build" /\ pi = 0 /\ lines = <<>>

\* build_inner: one (key, value) per step
Visit ==
  /\ pc = "build" /\ stack # <<>>
  /\ (LET f == stack[Len(stack)] IN
      IF f.k > Len(f.it.v)
      THEN stack' = SubSeq(stack, 1, Len(stack) - 1) /\ UNCHANGED rows
      ELSE LET p == Pairs(f.it, f.prev)[f.k]
               top == [f EXCEPT !.k = f.k + 1]
               rest == SubSeq(stack, 1, Len(stack) - 1) IN
           /\ rows' = Append(rows, RowOf(p[1], p[2], f.depth))
           /\ stack' = IF p[2].t = "s" THEN Append(rest, top)
                       ELSE Append(Append(rest, top), [it |-> p[2], prev |-> p[1], depth |-> f.depth + 1, k |-> 1]))
  /\ UNCHANGED <<item, width, cap, pc, pi, lines>>
Built == /\ pc = "build" /\ stack = <<>> /\ pc' = "print"
         /\ UNCHANGED <<item, width, cap, stack, rows, pi, lines>>

\* the printing loop over [header, divider] \o rows; pi = index of the next entry (0-based, as enumerate)
Marker == <<"(", ".", ".", ".", ")">>
Entries == 2 + Len(rows)
Limit == IF OffByOneCap THEN cap ELSE cap - 1
PrintRow ==
  /\ pc = "print"
  /\ (IF pi >= Entries THEN pc' = "done" /\ UNCHANGED <<pi, lines>>
      ELSE IF pi > Limit THEN /\ lines' = lines \o <<<<>>, Marker>> /\ pc' = "done" /\ UNCHANGED pi     \* blank line + announcement
      ELSE /\ lines' = Append(lines, IF pi = 0 THEN Cut(Join(Header), width)
                                     ELSE IF pi = 1 THEN [k \in 1..width |-> "-"]
                                     ELSE Cut(Text(rows[pi - 1]), width))
           /\ pi' = pi + 1 /\ UNCHANGED pc)
  /\ UNCHANGED <<item, width, cap, stack, rows>>

Next == Visit \/ Built \/ PrintRow
Spec == Init /\ [][Next]_vars /\ WF_vars(Next)

-----------------------------------------------------------------------------
Done == pc = "done"
Terminates == <>Done
\* the machine's rows are the declarative flattening: nothing lost, nothing reordered, nothing invented
RowsAreFlat == pc # "build" => rows = Flat(item, <<>>, 0)
RowsGrowInOrder == pc = "build" => \E n \in 0..Len(Flat(item, <<>>, 0)) : rows = SubSeq(Flat(item, <<>>, 0), 1, n)
IsPrefixOf(a, b) == Len(a) <= Len(b) /\ SubSeq(b, 1, Len(a)) = a
Shown == IF Entries - 1 <= Limit THEN Len(rows) ELSE Limit - 1          \* data rows that are printed
\* every printed data line is the text of its row, whole or cut with a mark; every line fits the page
LinesFaithful ==
  Done => /\ \A k \in 1..Shown :
               LET full == Text(rows[k]) line == lines[k + 2] IN
               IF Len(full) <= width THEN line = full
               ELSE Len(line) = width /\ SubSeq(line, width - 2, width) = <<".", ".", ".">> /\ IsPrefixOf(SubSeq(line, 1, width - 3), full)
          /\ \A k \in 1..(Shown + 2) : Len(lines[k]) <= width                  \* (the announcement itself is not cut)
\* a listing that does not show every row says so; one that shows every row does not
CapAnnounced ==
  Done => IF Shown < Len(rows) THEN Len(lines) = Shown + 4 /\ lines[Len(lines)] = Marker
          ELSE Len(lines) = Len(rows) + 2
TypeOK == pc \in {"build", "print", "done"} /\ pi \in 0..(Entries + 1)

Emit == (EmitCases /\ Done) => PrintT(<<"CASE", ToJson([item |-> item, width |-> width, cap |-> cap, lines |-> lines, shown |-> Shown, nrows |-> Len(rows)])>>)
=============================================================================
