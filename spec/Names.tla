------------------------------- MODULE Names -------------------------------
(***************************************************************************)
(* The naming machine of smpl_extract (structural.py):                     *)
(*   make_safe_name, make_export_name      two sanitising functions        *)
(*   _add_count_to_name, sanitize_names_general   "(n)" de-duplication,    *)
(*                         insertion-ordered groups, run once per pass     *)
(*   _STEREO_FILENAME, combine_stereo_routine      L/R pairing by name     *)
(*   parse_path            tokeniser + per-image token normalisation +     *)
(*                         first-match lookup among printed (safe) names   *)
(*                                                                         *)
(* Strings are sequences of one-character strings.  The regular            *)
(* expressions are transcribed as scanners over such sequences.            *)
(*                                                                         *)
(* Named deviations (TRUE = intended):                                     *)
(*   CountersGloballyUnique (D8) a generated "(n)" name also avoids names  *)
(*                               generated earlier in the same pass        *)
(*   StemCollisionHandled   (D9) a merged pair whose stem is already taken *)
(*                               by a sibling gets a free "(n)" name       *)
(***************************************************************************)
EXTENDS Integers, Sequences, FiniteSets, TLC, Json

CONSTANTS Pool,            \* sequence of candidate names (each a sequence of 1-char strings)
          MaxSiblings,
          FixedSeqs,       \* if non-empty: evaluate exactly these sequences of pool indices instead of enumerating
          IsDir,           \* the siblings are directories (is_file = FALSE) / files
          NoCombine,       \* files of an image kind that does not pair L/R (CDDA tracks)
          ImageKind,       \* "akai" | "other": token normalisation of parse_path
          CountersGloballyUnique, StemCollisionHandled,
          EmitCases

VARIABLES sibs, done,      \* sibs: sequence of indices into Pool
          res              \* the machine's results for sibs, computed once when the directory is closed
vars == <<sibs, done, res>>

\* ---- characters --------------------------------------------------------------
Letters == {"A", "B", "C", "D", "E", "F", "G", "H", "I", "J", "K", "L", "M", "N", "O", "P", "Q", "R", "S", "T", "U", "V", "W", "X", "Y", "Z", "a", "b", "c", "d", "e", "f", "g", "h", "i", "j", "k", "l", "m", "n", "o", "p", "q", "r", "s", "t", "u", "v", "w", "x", "y", "z"}
Digits == {"0", "1", "2", "3", "4", "5", "6", "7", "8", "9"}
IsWord(c) == c \in Letters \cup Digits \cup {"_"}
IsWs(c) == c \in {" ", "\t", "\f"}
Quotes == {"'", "\"", "`"}
SafeAllowed(c) == IsWord(c) \/ c \in {"-", "=", ":", ".", "@", "#", "&", "+", " "}
FileAllowed(c) == IsWord(c) \/ c \in {"-", ".", "#", " "}

RECURSIVE LStrip(_), RStrip(_)
LStrip(s) == IF s # <<>> /\ IsWs(Head(s)) THEN LStrip(Tail(s)) ELSE s
RStrip(s) == IF s # <<>> /\ IsWs(s[Len(s)]) THEN RStrip(SubSeq(s, 1, Len(s) - 1)) ELSE s
Strip(s) == RStrip(LStrip(s))

\* end index of the maximal run starting at i of characters in the given class
RECURSIVE RunEndNotSafe(_, _), RunEndColon(_, _), RunEndNotFile(_, _)
RunEndNotSafe(s, i) == IF i + 1 <= Len(s) /\ ~SafeAllowed(s[i + 1]) THEN RunEndNotSafe(s, i + 1) ELSE i
RunEndColon(s, i) == IF i + 1 <= Len(s) /\ s[i + 1] = ":" THEN RunEndColon(s, i + 1) ELSE i
RunEndNotFile(s, i) == IF i + 1 <= Len(s) /\ ~FileAllowed(s[i + 1]) THEN RunEndNotFile(s, i + 1) ELSE i

\* re.sub(r"([^\w\-=\:.@#&+ ]+|(?<!\w)\:+)", " ", s)
RECURSIVE ScanSafe(_, _, _)
ScanSafe(s, i, acc) ==
  IF i > Len(s) THEN acc
  ELSE LET c == s[i] IN
       IF ~SafeAllowed(c) THEN ScanSafe(s, RunEndNotSafe(s, i) + 1, Append(acc, " "))
       ELSE IF c = ":" /\ (i = 1 \/ ~IsWord(s[i - 1])) THEN ScanSafe(s, RunEndColon(s, i) + 1, Append(acc, " "))
       ELSE ScanSafe(s, i + 1, Append(acc, c))

MakeSafe(name) == Strip(ScanSafe(SelectSeq(name, LAMBDA c : c \notin Quotes), 1, <<>>))

\* re.sub(r"[^\w\-\.# ]+", " ", s)
RECURSIVE ScanFile(_, _, _)
ScanFile(s, i, acc) ==
  IF i > Len(s) THEN acc
  ELSE IF ~FileAllowed(s[i]) THEN ScanFile(s, RunEndNotFile(s, i) + 1, Append(acc, " "))
  ELSE ScanFile(s, i + 1, Append(acc, s[i]))

\* group(1) of (.+?)\s*\.?\s*$ on a stripped string
SafeEnding(s) ==
  IF Len(s) <= 1 THEN s
  ELSE IF s[Len(s)] = "." THEN LET t == RStrip(SubSeq(s, 1, Len(s) - 1)) IN IF t = <<>> THEN <<s[1]>> ELSE t
  ELSE s

MakeExport(name, isFile) ==
  LET a == SafeEnding(Strip(ScanFile(name, 1, <<>>)))
      b == IF a = <<>> THEN <<"0">> ELSE a
      c == IF IsWord(b[1]) THEN b ELSE <<"0">> \o b
  IN IF ~isFile /\ c[Len(c)] \in {".", "-"} THEN Append(c, "0") ELSE c

\* ---- stereo pattern (.*?)([\s-]+)(L|R)\s*$ --------------------------------------
IsSep(c) == IsWs(c) \/ c = "-"
RECURSIVE SepStart(_, _)
SepStart(s, i) == IF i - 1 >= 1 /\ IsSep(s[i - 1]) THEN SepStart(s, i - 1) ELSE i    \* first index of the sep run ending at i-1
Stereo(name) ==
  LET s == RStrip(name)
      n == Len(s)
  IN IF n >= 2 /\ s[n] \in {"L", "R"} /\ IsSep(s[n - 1])
       THEN LET st == SepStart(s, n) IN
            [match |-> TRUE, stem |-> SubSeq(s, 1, st - 1), sep |-> SubSeq(s, st, n - 1), side |-> s[n]]
       ELSE [match |-> FALSE, stem |-> <<>>, sep |-> <<>>, side |-> ""]

Digits10(d) == <<"0", "1", "2", "3", "4", "5", "6", "7", "8", "9">>[d + 1]
DigitsOf(n) == IF n < 10 THEN <<Digits10(n)>> ELSE <<Digits10(n \div 10), Digits10(n % 10)>>
AddCount(name, n) ==
  LET cnt == <<"(">> \o DigitsOf(n) \o <<")">>
      m == Stereo(name)
  IN IF m.match THEN m.stem \o <<" ">> \o cnt \o <<" ", m.side>> ELSE name \o <<" ">> \o cnt

\* ---- sanitize_names_general -------------------------------------------------------
\* cand: sequence of candidate names (one per element, in order).  Result: assigned names.
Keys(cand) == {cand[k] : k \in 1..Len(cand)}
\* the while loop looking for a free count; `taken` are names generated earlier in this pass
RECURSIVE FindFree(_, _, _, _, _)
FindFree(name, i, j, keys, taken) ==
  LET nn == AddCount(name, i) IN
  IF nn \in keys \/ (CountersGloballyUnique /\ nn \in taken)
    THEN IF j + 1 > Cardinality(keys) + (IF CountersGloballyUnique THEN Cardinality(taken) ELSE 0)
           THEN [i |-> i + 1, name |-> <<"?">>, err |-> TRUE]
           ELSE FindFree(name, i + 1, j + 1, keys, taken)
    ELSE [i |-> i, name |-> nn, err |-> FALSE]

\* groups in insertion order; members in order
FirstOcc(cand, k) == \A q \in 1..(k - 1) : cand[q] # cand[k]
Members(cand, nm) == LET idx == {k \in 1..Len(cand) : cand[k] = nm} IN
                     [r \in 1..Cardinality(idx) |-> CHOOSE k \in idx : Cardinality({q \in idx : q < k}) = r - 1]

\* process group members 2.. of a group
RECURSIVE GroupAssign(_, _, _, _, _, _, _)
GroupAssign(nm, mem, r, i, keys, taken, out) ==
  IF r > Len(mem) THEN [out |-> out, taken |-> taken, err |-> FALSE]
  ELSE IF r = 1 THEN GroupAssign(nm, mem, 2, 1, keys, taken, [out EXCEPT ![mem[1]] = nm])
  ELSE LET f == FindFree(nm, i + 1, 0, keys, taken) IN
       IF f.err THEN [out |-> out, taken |-> taken, err |-> TRUE]
       ELSE GroupAssign(nm, mem, r + 1, f.i, keys, taken \cup {f.name}, [out EXCEPT ![mem[r]] = f.name])

RECURSIVE PassGroups(_, _, _, _)
PassGroups(cand, k, taken, out) ==
  IF k > Len(cand) THEN [names |-> out, err |-> FALSE]
  ELSE IF ~FirstOcc(cand, k) THEN PassGroups(cand, k + 1, taken, out)
  ELSE LET g == GroupAssign(cand[k], Members(cand, cand[k]), 1, 1, Keys(cand), taken, out) IN
       IF g.err THEN [names |-> out, err |-> TRUE] ELSE PassGroups(cand, k + 1, g.taken, g.out)

SanitizePass(cand) == PassGroups(cand, 1, {}, [k \in 1..Len(cand) |-> <<>>])

\* ---- combine_stereo_routine ---------------------------------------------------------
\* samples: sequence of [id, name]; result: sequence of [name, ch (sequence of ids)]
LastWithName(samples, nm) == CHOOSE k \in 1..Len(samples) : samples[k].name = nm /\ \A q \in (k + 1)..Len(samples) : samples[q].name # nm
HasName(samples, nm) == \E k \in 1..Len(samples) : samples[k].name = nm
Flip(side) == IF side = "L" THEN "R" ELSE "L"

RECURSIVE FreeStem(_, _, _)
FreeStem(stem, n, used) == IF AddCount(stem, n) \in used THEN FreeStem(stem, n + 1, used) ELSE AddCount(stem, n)

RECURSIVE CombineRec(_, _, _, _)
CombineRec(samples, k, marked, out) ==
  IF k > Len(samples) THEN out
  ELSE LET s == samples[k] IN
       IF s.name \in marked THEN CombineRec(samples, k + 1, marked, out)
       ELSE LET m == Stereo(s.name)
                alt == m.stem \o m.sep \o <<Flip(m.side)>>
            IN IF m.match /\ HasName(samples, alt)
                 THEN LET o == samples[LastWithName(samples, alt)]
                          used == {samples[q].name : q \in 1..Len(samples)} \cup {out[q].name : q \in 1..Len(out)}
                          nm == IF StemCollisionHandled /\ m.stem \in used THEN FreeStem(m.stem, 2, used) ELSE m.stem
                          pair == IF m.side = "L" THEN <<s.id, o.id>> ELSE <<o.id, s.id>>
                      IN CombineRec(samples, k + 1, marked \cup {s.name, alt}, Append(out, [name |-> nm, ch |-> pair]))
                 ELSE CombineRec(samples, k + 1, marked \cup {s.name}, Append(out, [name |-> s.name, ch |-> <<s.id>>]))
Combine(samples) == CombineRec(samples, 1, {}, <<>>)

\* ---- one directory ------------------------------------------------------------------------
NameOf(k) == Pool[sibs[k]]
Compute ==
  LET sp == SanitizePass([k \in 1..Len(sibs) |-> MakeSafe(NameOf(k))])
      ep == SanitizePass([k \in 1..Len(sibs) |-> MakeExport(NameOf(k), ~IsDir)])
  IN [safe |-> sp, export |-> ep,
      outputs |-> IF IsDir \/ NoCombine THEN [k \in 1..Len(sibs) |-> [name |-> ep.names[k], ch |-> <<k>>]]
                  ELSE Combine([k \in 1..Len(sibs) |-> [id |-> k, name |-> ep.names[k]]])]
SafePass == res.safe
ExportPass == res.export
Outputs == res.outputs

\* ---- parse_path ------------------------------------------------------------------------------
\* tokens: split on "/" , "\" or "\\"; one trailing empty token dropped; each token normalised
RECURSIVE Split(_, _, _, _)
Split(s, i, cur, acc) ==
  IF i > Len(s) THEN Append(acc, cur)
  ELSE IF s[i] = "/" THEN Split(s, i + 1, <<>>, Append(acc, cur))
  ELSE IF s[i] = "\\" THEN Split(s, IF i + 1 <= Len(s) /\ s[i + 1] = "\\" THEN i + 2 ELSE i + 1, <<>>, Append(acc, cur))
  ELSE Split(s, i + 1, Append(cur, s[i]), acc)
Tokens(path) == LET t == Split(Strip(path), 1, <<>>, <<>>) IN
                IF Len(t) > 0 /\ t[Len(t)] = <<>> THEN SubSeq(t, 1, Len(t) - 1) ELSE t
LowerSeq == <<"a", "b", "c", "d", "e", "f", "g", "h", "i", "j", "k", "l", "m", "n", "o", "p", "q", "r", "s", "t", "u", "v", "w", "x", "y", "z">>
UpperSeq == <<"A", "B", "C", "D", "E", "F", "G", "H", "I", "J", "K", "L", "M", "N", "O", "P", "Q", "R", "S", "T", "U", "V", "W", "X", "Y", "Z">>
Upper(c) == IF \E k \in 1..26 : LowerSeq[k] = c THEN UpperSeq[CHOOSE k \in 1..26 : LowerSeq[k] = c] ELSE c
Norm(tok) == LET s == Strip(tok) IN
             IF ImageKind = "akai"
               THEN LET u == Strip([k \in 1..Len(s) |-> Upper(s[k])]) IN
                    IF u # <<>> /\ u[Len(u)] = ":" THEN SubSeq(u, 1, Len(u) - 1) ELSE u
               ELSE s
\* index of the first sibling whose normalised printed name equals the normalised token, 0 if none
Lookup(tok) == LET hits == {k \in 1..Len(sibs) : Norm(SafePass.names[k]) = Norm(tok)} IN
               IF hits = {} THEN 0 ELSE CHOOSE k \in hits : \A q \in hits : k <= q

\* every character of the pool is one this module classifies (others would silently count as punctuation)
Punct == {" ", "\t", "-", "=", ":", ".", "@", "#", "&", "+", "(", ")", "/", "\\", "'", "\"", "`", "_", "~", "!", ",", "*", "?", "<", ">", "|", "\f"}
ASSUME \A k \in 1..Len(Pool) : \A j \in 1..Len(Pool[k]) : Pool[k][j] \in Letters \cup Digits \cup Punct

\* ---- state machine -------------------------------------------------------------------------------
Init == sibs = <<>> /\ done = FALSE /\ res = [safe |-> [names |-> <<>>, err |-> FALSE], export |-> [names |-> <<>>, err |-> FALSE], outputs |-> <<>>]
Add == ~done /\ FixedSeqs = {} /\ Len(sibs) < MaxSiblings /\ \E p \in 1..Len(Pool) : sibs' = Append(sibs, p) /\ UNCHANGED <<done, res>>
Close == ~done /\ Len(sibs) >= 1 /\ done' = TRUE /\ res' = Compute /\ UNCHANGED sibs
PickFixed == ~done /\ sibs = <<>> /\ \E q \in FixedSeqs : sibs' = q /\ UNCHANGED <<done, res>>
Next == Add \/ Close \/ PickFixed
Spec == Init /\ [][Next]_vars

\* ---- properties ---------------------------------------------------------------------------------------
CompCharOK(c) == IsWord(c) \/ c \in {" ", "-", ".", "#", "(", ")"}
ComponentOK(nm, isFile) ==
  /\ nm # <<>> /\ \A k \in 1..Len(nm) : CompCharOK(nm[k])
  /\ IsWord(nm[1])
  /\ isFile \/ nm[Len(nm)] \notin {" ", "."}        \* file components carry ".wav"

\* C06
PathsPairwiseDistinct == done => \A a, b \in 1..Len(Outputs) : a # b => Outputs[a].name # Outputs[b].name
ComponentCharset == done => ~ExportPass.err /\ \A k \in 1..Len(Outputs) : ComponentOK(Outputs[k].name, ~IsDir)
\* C05
ChannelConservation ==
  (done /\ ~IsDir) => LET o == Outputs
                          RECURSIVE Sum(_)
                          Sum(k) == IF k = 0 THEN 0 ELSE Sum(k - 1) + Len(o[k].ch)
                      IN /\ Sum(Len(o)) = Len(sibs)
                         /\ \A i \in 1..Len(sibs) : \E k \in 1..Len(o) : \E c \in 1..Len(o[k].ch) : o[k].ch[c] = i
PairIsLR ==
  (done /\ ~IsDir) => \A k \in 1..Len(Outputs) :
     LET o == Outputs[k] IN
     Len(o.ch) = 2 =>
        LET l == Stereo(ExportPass.names[o.ch[1]])   r == Stereo(ExportPass.names[o.ch[2]]) IN
        /\ l.match /\ r.match /\ l.side = "L" /\ r.side = "R" /\ l.stem = r.stem /\ l.sep = r.sep
        /\ (o.name = l.stem \/ (StemCollisionHandled /\ SubSeq(o.name, 1, Len(l.stem)) = l.stem))
\* the raw-name statement of C05: two siblings whose stored names differ only in a final L/R preceded by
\* spaces or hyphens (and are not involved in any other collision) are merged
SimplePairMerged ==
  (done /\ ~IsDir /\ ~NoCombine /\ Len(sibs) = 2) =>
     LET a == Stereo(MakeExport(NameOf(1), TRUE))   b == Stereo(MakeExport(NameOf(2), TRUE)) IN
     (a.match /\ b.match /\ a.stem = b.stem /\ a.sep = b.sep /\ a.side # b.side) => Len(Outputs) = 1 /\ Len(Outputs[1].ch) = 2
\* C10
SiblingNamesDistinct == done => ~SafePass.err /\ \A a, b \in 1..Len(sibs) : a # b => SafePass.names[a] # SafePass.names[b]
RoundTrip == done => \A k \in 1..Len(sibs) :
                 Strip(SafePass.names[k]) # <<>> =>
                   /\ Lookup(SafePass.names[k]) = k
                   /\ Lookup(<<" ">> \o SafePass.names[k] \o <<" ">>) = k
                   /\ LET t == Tokens(SafePass.names[k] \o <<"/">>) IN Len(t) = 1 /\ Norm(t[1]) = Norm(SafePass.names[k])
                   /\ LET t == Tokens(SafePass.names[k] \o <<"\\">>) IN Len(t) = 1 /\ Norm(t[1]) = Norm(SafePass.names[k])

\* probe strings for parse_path: each printed name and corruptions of it, with the predicted lookup result
Lower(c) == IF \E k \in 1..26 : UpperSeq[k] = c THEN LowerSeq[CHOOSE k \in 1..26 : UpperSeq[k] = c] ELSE c
Mutations(nm) == {nm, <<" ">> \o nm \o <<" ", " ">>, Append(nm, "x"), Append(nm, ":"),
                  IF nm = <<>> THEN <<>> ELSE SubSeq(nm, 1, Len(nm) - 1),
                  [k \in 1..Len(nm) |-> Lower(nm[k])], [k \in 1..Len(nm) |-> Upper(nm[k])],
                  <<"Z", "z", "9">>, <<>>, <<" ">>,
                  \* an EMPTY path component next to the name (a leading separator, a doubled trailing separator): no item has an
                  \* empty name, so these are "any other path string" and must not resolve
                  <<"/">> \o nm, nm \o <<"/", "/">>, <<"/", "/">> \o nm, nm \o <<"/", " ", "/">>}
\* a probe is a path relative to the directory: it resolves iff it is ONE token (after the trailing separator is dropped)
\* that looks up an item; an empty token in front, in the middle or doubled at the end resolves nothing
PathHit(t) == LET tk == Tokens(t) IN IF Len(tk) = 1 THEN Lookup(tk[1]) ELSE 0
Probes == LET texts == UNION {Mutations(SafePass.names[k]) : k \in 1..Len(sibs)} IN
          {[text |-> t, hit |-> PathHit(t), blank |-> Strip(t) = <<>>] : t \in texts}

Emit == (EmitCases /\ done) =>
   PrintT(<<"CASE", ToJson([names |-> [k \in 1..Len(sibs) |-> NameOf(k)], isdir |-> IsDir,
                            safe |-> SafePass.names, export |-> ExportPass.names,
                            err |-> SafePass.err \/ ExportPass.err, outputs |-> Outputs, probes |-> Probes])>>)
=============================================================================
