---------------------------- MODULE RolandImage ----------------------------
(***************************************************************************)
(* Roland S-7xx disc image: logical model -> layout -> expected export.    *)
(*                                                                         *)
(*  roland/s7xx/image.py        id area, FAT area, volumes                 *)
(*  roland/s7xx/volume_entry.py volume -> performance pointers; the        *)
(*                              pseudo volume of performances no volume    *)
(*                              references ("_Orphan_perf", or "All        *)
(*                              Performances" when there is no volume)     *)
(*  performance_entry.py -> patch_entry.py -> partial_entry.py ->          *)
(*  sample_entry.py             pointer lists; index -> record addresses   *)
(*  fat.py get_file             cluster chain minus `cluster_top` leading  *)
(*                              clusters                                   *)
(*  sample_file.py              7 loop modes -> [start, end] window,       *)
(*                              reversal for modes 5 and 6                 *)
(*                                                                         *)
(* Indices are 0-based like the image's pointers.                          *)
(***************************************************************************)
EXTENDS Integers, Sequences, FiniteSets, TLC, Json

CONSTANTS C,            \* cluster size in bytes
          NClusters,    \* clusters 2..NClusters-1 are usable
          Mode,         \* "exhaustive" | "classes"
          MaxSamples, MaxChain, MaxPartials, MaxPatches, MaxPerfs, MaxVols,
          Shared,       \* TRUE: a sample may live in the cluster chain of an earlier sample, behind a different leading-cluster offset
          EmitCases

VARIABLES img, done, goal
vars == <<img, done, goal>>

Min(a, b) == IF a < b THEN a ELSE b
RangeOf(s) == {s[k] : k \in 1..Len(s)}
ENDW == 65528

\* ---- cluster allocation ---------------------------------------------------------
Used == UNION {RangeOf(img.samples[s].chain) : s \in 1..Len(img.samples)}
Free == (2..(NClusters - 1)) \ Used
RECURSIVE Kth(_, _)
Kth(set, k) == LET m == CHOOSE x \in set : \A y \in set : x <= y IN IF k = 1 THEN m ELSE Kth(set \ {m}, k - 1)
RECURSIVE InjSeqs(_, _)
InjSeqs(set, n) == IF n = 0 THEN {<<>>}
                   ELSE UNION {{Append(q, x) : x \in set \ RangeOf(q)} : q \in InjSeqs(set, n - 1)}
Patterns(n) ==
  CASE n = 1 -> {<<1>>, <<2>>}
    [] n = 2 -> {<<1, 2>>, <<2, 1>>, <<1, 3>>}
    [] OTHER -> {<<1, 2, 3>>, <<3, 2, 1>>, <<2, 3, 1>>, <<1, 4, 2>>}
ChainCandidates(n) ==
  IF Mode = "exhaustive" THEN InjSeqs(Free, n)
  ELSE IF Cardinality(Free) < n + 2 THEN {}
  ELSE {[k \in 1..n |-> Kth(Free, p[k])] : p \in Patterns(n)}

\* ---- sample window ------------------------------------------------------------------
EndPoint(s) == IF s.mode \in {1, 3} THEN s.pts[5] ELSE s.pts[3]       \* release-loop end / sustain-loop end
Reversed(s) == s.mode \in {5, 6}
DataChain(s) == SubSeq(s.chain, s.ctop + 1, Len(s.chain))            \* after the leading-cluster offset
RECURSIVE ExtentsRec(_, _, _, _)
ExtentsRec(ch, a, b, acc) ==
  IF a >= b THEN acc
  ELSE LET idx == a \div C   off == a % C   n == Min(C - off, b - a)
       IN ExtentsRec(ch, a + n, b, Append(acc, [cluster |-> ch[idx + 1], off |-> off, len |-> n]))
Extents(s) == ExtentsRec(DataChain(s), 2 * s.pts[1], 2 * (EndPoint(s) + 1), <<>>)
FreqOf(code) == <<48000, 44100, 24000, 22050, 30000, 15000>>[code + 1]

\* ---- hierarchy ------------------------------------------------------------------------
SamplesOfPartial(pt) == {img.partials[pt + 1].refs[k] : k \in 1..Len(img.partials[pt + 1].refs)}
SamplesOfPatch(pa) == UNION {SamplesOfPartial(pt) : pt \in img.patches[pa + 1].partials}
SamplesOfPerf(pf) == UNION {SamplesOfPatch(pa) : pa \in img.perfs[pf + 1].patches}
InVolume == UNION {img.vols[v].perfs : v \in 1..Len(img.vols)}
Orphans == {pf \in 0..(Len(img.perfs) - 1) : pf \notin InVolume}

SampleRec(s) == LET x == img.samples[s + 1] IN
  [sample |-> s, name |-> x.name, rate |-> FreqOf(x.freq), reversed |-> Reversed(x), extents |-> Extents(x)]
PerfRec(volname, pf) == [volume |-> volname, performance |-> img.perfs[pf + 1].name,
                         samples |-> {SampleRec(s) : s \in SamplesOfPerf(pf)}]
Expected ==
  UNION {{PerfRec(img.vols[v].name, pf) : pf \in img.vols[v].perfs} : v \in 1..Len(img.vols)}
  \cup {PerfRec(IF Len(img.vols) = 0 THEN "All Performances" ELSE "_Orphan_perf", pf) : pf \in Orphans}

\* FAT words (sparse)
ChainWords(ch) == {<<ch[k], IF k = Len(ch) THEN ENDW ELSE ch[k + 1]>> : k \in 1..Len(ch)}
FatPairs == UNION {ChainWords(img.samples[s].chain) : s \in 1..Len(img.samples)}

\* ---- actions ------------------------------------------------------------------------------
Init == /\ img = [samples |-> <<>>, partials |-> <<>>, patches |-> <<>>, perfs |-> <<>>, vols |-> <<>>, fatver |-> 1, spread |-> FALSE]
        /\ done = FALSE
        /\ goal \in [ns : 1..MaxSamples, npt : 1..MaxPartials, npa : 1..MaxPatches, npf : 1..MaxPerfs, nv : 0..MaxVols]

SampleNames == <<"PIANO C3", "Str_A", "kick 1", "S4">>
PtChoices(cap) ==
  IF Mode = "exhaustive"
    THEN {<<st, ss, se, rs, re>> : st \in 0..(cap - 1), ss \in {0}, se \in 0..(cap - 1), rs \in {0}, re \in 0..(cap - 1)}
         \cap {p \in (0..(cap-1)) \X {0} \X (0..(cap-1)) \X {0} \X (0..(cap-1)) : p[1] <= p[3] /\ p[1] <= p[5]}
    ELSE {<<0, 10, cap - 1, 20, cap \div 2>>,                 \* sustain end fills the last cluster exactly
          <<0, 0, cap \div 2, 5, cap - 1>>,                   \* release end fills the last cluster exactly
          <<cap \div 3, cap \div 3, cap \div 2, cap \div 2, (2 * cap) \div 3>>,
          <<7, 7, 7, 7, 7>>,                                  \* one-sample window
          <<1, 2, C \div 2, 3, C \div 2 - 1>>}                \* ends one sample into the second cluster (if any)
         \cap {p \in Seq(0..(cap - 1)) : Len(p) = 5 /\ p[1] <= p[3] /\ p[1] <= p[5]}

NewSample ==
  /\ ~done /\ Len(img.samples) < goal.ns
  /\ \E n \in 1..MaxChain : \E ch \in ChainCandidates(n) : \E ctop \in {0, 1} :
       /\ ctop < n
       /\ LET cap == ((n - ctop) * C) \div 2 IN
          \E pts \in PtChoices(cap) : \E mode \in 0..6 : \E freq \in (IF Mode = "exhaustive" THEN {1} ELSE 0..5) :
            img' = [img EXCEPT !.samples = Append(@, [name |-> SampleNames[Len(img.samples) + 1], chain |-> ch, ctop |-> ctop,
                                                     mode |-> mode, freq |-> freq, pts |-> pts, key |-> 60])]
  /\ UNCHANGED <<done, goal>>

\* a sample stored in the chain of an earlier sample (same first cluster, same chain), its data behind a different
\* leading-cluster offset: what `cluster_top` is for
NewSharedSample ==
  /\ ~done /\ Shared /\ Len(img.samples) < goal.ns
  /\ \E b \in 1..Len(img.samples) : \E ctop \in {0, 1} :
       LET base == img.samples[b]   n == Len(base.chain) IN
       /\ ctop < n /\ ctop # base.ctop
       /\ LET cap == ((n - ctop) * C) \div 2 IN
          \E pts \in PtChoices(cap) : \E mode \in 0..6 : \E freq \in (IF Mode = "exhaustive" THEN {1} ELSE 0..5) :
            img' = [img EXCEPT !.samples = Append(@, [name |-> SampleNames[Len(img.samples) + 1], chain |-> base.chain, ctop |-> ctop,
                                                     mode |-> mode, freq |-> freq, pts |-> pts, key |-> 60])]
  /\ UNCHANGED <<done, goal>>

\* a partial references 1..4 samples (slots may repeat a sample)
NewPartial ==
  /\ ~done /\ Len(img.samples) = goal.ns /\ Len(img.partials) < goal.npt
  /\ \E k \in 1..Min(2, goal.ns + 1) : \E refs \in [1..k -> 0..(goal.ns - 1)] :
       img' = [img EXCEPT !.partials = Append(@, [name |-> <<"Partial A", "Partial B", "Partial C">>[Len(img.partials) + 1], refs |-> refs])]
  /\ UNCHANGED <<done, goal>>

NonEmptySubsets(n) == {x \in SUBSET (0..(n - 1)) : x # {}}
NewPatch ==
  /\ ~done /\ Len(img.partials) = goal.npt /\ Len(img.patches) < goal.npa
  /\ \E ps \in NonEmptySubsets(goal.npt) :
       img' = [img EXCEPT !.patches = Append(@, [name |-> <<"Patch 1", "Patch 2", "Patch 3">>[Len(img.patches) + 1], partials |-> ps])]
  /\ UNCHANGED <<done, goal>>

NewPerf ==
  /\ ~done /\ Len(img.patches) = goal.npa /\ Len(img.perfs) < goal.npf
  /\ \E ps \in NonEmptySubsets(goal.npa) :
       img' = [img EXCEPT !.perfs = Append(@, [name |-> <<"Perf One", "Perf Two", "Perf 3">>[Len(img.perfs) + 1], patches |-> ps])]
  /\ UNCHANGED <<done, goal>>

NewVol ==
  /\ ~done /\ Len(img.perfs) = goal.npf /\ Len(img.vols) < goal.nv
  /\ \E ps \in SUBSET (0..(goal.npf - 1)) :
       img' = [img EXCEPT !.vols = Append(@, [name |-> <<"Volume A", "Vol B">>[Len(img.vols) + 1], perfs |-> ps])]
  /\ UNCHANGED <<done, goal>>

\* Records are addressed by INDEX (pointer lists hold indices); the id area only holds COUNTS.  "spread" places
\* performance / patch / partial / sample k > 0 at index k + 4 (free slots below, as after deletions), so that an
\* orphan performance can sit at an index >= the number of performances.
Finish ==
  /\ ~done /\ Len(img.perfs) = goal.npf /\ Len(img.vols) = goal.nv
  /\ \E fv \in {1, 2}, spread \in BOOLEAN : img' = [img EXCEPT !.fatver = fv, !.spread = spread]
  /\ done' = TRUE /\ UNCHANGED goal

Next == NewSample \/ NewSharedSample \/ NewPartial \/ NewPatch \/ NewPerf \/ NewVol \/ Finish
Spec == Init /\ [][Next]_vars

\* ---- design properties -----------------------------------------------------------------------
LayoutSane ==
  /\ \A s \in 1..Len(img.samples) :
       LET x == img.samples[s] IN
       /\ Cardinality(RangeOf(x.chain)) = Len(x.chain) /\ RangeOf(x.chain) \subseteq 2..(NClusters - 1)
       /\ 2 * (EndPoint(x) + 1) <= (Len(x.chain) - x.ctop) * C
  /\ \A s1, s2 \in 1..Len(img.samples) : s1 # s2 => \/ RangeOf(img.samples[s1].chain) \cap RangeOf(img.samples[s2].chain) = {}
                                                       \/ (Shared /\ img.samples[s1].chain = img.samples[s2].chain)

AT == INSTANCE AllocTable WITH N <- NClusters + 10, Kind <- "roland", Alphabet <- {}, Lo <- 0, Hi <- 0,
         SatInstallOnVisited <- TRUE, SatInstallAtTableEnd <- TRUE, PathGuardIncrements <- TRUE,
         RolandWalkBounded <- TRUE, EmitCases <- FALSE, Stride <- 1, Phase <- 0, tbl <- <<>>
FatWord(x) == IF \E pr \in FatPairs : pr[1] = x THEN (CHOOSE pr \in FatPairs : pr[1] = x)[2]
              ELSE IF x = 0 THEN 65530 ELSE IF x >= NClusters + 8 THEN 65535 ELSE 0
DecodeOfEncodeIsChain ==
  (NClusters <= 12) =>
     LET d == AT!RolDecode([k \in 1..(NClusters + 10) |-> FatWord(k - 1)]) IN
     /\ d.kind = "ok"
     /\ \A s \in 1..Len(img.samples) :
          AT!GetPath(d.sl, img.samples[s].chain[1]) = [kind |-> "path", path |-> img.samples[s].chain]

\* the window is start .. (sustain end | release end) inclusive, whatever the other points are
WindowIsStartToModeEnd ==
  \A s \in 1..Len(img.samples) :
     LET x == img.samples[s]
         ex == Extents(x)
         RECURSIVE Sum(_)
         Sum(k) == IF k = 0 THEN 0 ELSE Sum(k - 1) + ex[k].len
     IN /\ Sum(Len(ex)) = 2 * ((IF x.mode \in {1, 3} THEN x.pts[5] ELSE x.pts[3]) - x.pts[1] + 1)
        /\ \A k \in 1..Len(ex) : /\ ex[k].off + ex[k].len <= C
                                 /\ ex[k].cluster = x.chain[x.ctop + (2 * x.pts[1] + Sum(k - 1)) \div C + 1]

\* every performance appears: under each volume listing it, or exactly once in the pseudo volume
OrphanPerformancesAppearOnce ==
  done => \A pf \in 0..(Len(img.perfs) - 1) :
     LET recs == {r \in Expected : r.performance = img.perfs[pf + 1].name} IN
     IF pf \in Orphans THEN Cardinality(recs) = 1 /\ \A r \in recs : r.volume \in {"_Orphan_perf", "All Performances"}
     ELSE Cardinality(recs) = Cardinality({v \in 1..Len(img.vols) : pf \in img.vols[v].perfs})

Emit == (EmitCases /\ done) =>
   PrintT(<<"CASE", ToJson([C |-> C, nclusters |-> NClusters, img |-> img, fat |-> FatPairs, expected |-> Expected])>>)
=============================================================================
