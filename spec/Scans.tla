-------------------------------- MODULE Scans --------------------------------
(***************************************************************************)
(* The loops of smpl_extract that consume untrusted structure, each with   *)
(* its variant (C13).  One action = one loop iteration.                    *)
(*                                                                         *)
(*  "partitions" akai/image.py _load_partitions: while tell < file_size:   *)
(*               parse a partition; the stream ends at start + size*S      *)
(*               (Lazy skip, possibly backwards when size*S is smaller     *)
(*               than the fixed head); size <= 0 or a bad header stops     *)
(*  "table"      akai/file_entry.py: for _ in range(size // 24): end       *)
(*               marker test, entry parse (a failed parse leaves the       *)
(*               stream where it failed: Realign = FALSE as implemented)   *)
(*  "keygroups"  akai/program.py: number_of_keygroups iterations, each     *)
(*               optionally seeking to an arbitrary next address           *)
(*  "cue"        cuesheet.py: every call of get_nonempty_entry pops >= 1   *)
(*               line; a pushed-back line is consumed by the callee        *)
(* (The allocation-table walks are in AllocWalk.tla.)                      *)
(* Properties: Terminates, and StepBound: the number of iterations never   *)
(* exceeds a linear function of the input size.                            *)
(***************************************************************************)
EXTENDS Integers, Sequences, FiniteSets, TLC

CONSTANTS TableScanRealigns,          \* (D6) TRUE: after a failed entry parse the scan continues at the next entry boundary
          Kind, MaxSize, S, HeadLen   \* S: sector size in units, HeadLen: fixed head of a partition in units

VARIABLES input, pos, steps, pc, pushed
vars == <<input, pos, steps, pc, pushed>>

\* inputs: "partitions": sequence of size fields, one per sector of the file (0 = bad header, 1.. = size)
\*         "table": sequence of entry kinds ("ok" | "bad" | "end") ; "keygroups": sequence of next addresses
\*         "cue": sequence of line classes
Alphabet == CASE Kind = "partitions" -> 0..3
              [] Kind = "table" -> {"ok", "bad_name", "bad_type", "bad_start", "end"}
              [] Kind = "keygroups" -> 0..MaxSize
              [] OTHER -> {"FILE", "TRACK", "INDEX", "OTHER", "BLANK"}

Init == input = <<>> /\ pos = 0 /\ steps = 0 /\ pc = "build" /\ pushed = FALSE
Build == /\ pc = "build"
         /\ \/ (Len(input) < MaxSize /\ \E a \in Alphabet : input' = Append(input, a) /\ UNCHANGED pc)
            \/ (input' = input /\ pc' = "run")
         /\ UNCHANGED <<pos, steps, pushed>>

\* file_size = Len(input) * S units; a partition header sits at a sector boundary only if pos % S = 0
PartStep ==
  /\ Kind = "partitions" /\ pc = "run"
  /\ IF pos >= Len(input) * S THEN pc' = "done" /\ UNCHANGED <<pos, steps>>
     ELSE LET sz == IF pos % S = 0 THEN input[pos \div S + 1] ELSE 0 IN
          IF sz <= 0 THEN pc' = "done" /\ UNCHANGED <<pos, steps>>                 \* InvalidPartition / ConstructError: break
          ELSE pos' = pos + sz * S /\ steps' = steps + 1 /\ UNCHANGED pc           \* also when sz * S < HeadLen (backward Lazy skip)
  /\ UNCHANGED <<input, pushed>>

\* pos counts BYTES; entry k occupies [24(k-1), 24k).  A parse that fails on the name stops after 12 bytes, on the type
\* byte after 17; a start sector beyond the table is detected after the whole entry was read.
EntryAt(p) == input[p \div 24 + 1]
TableStep ==
  /\ Kind = "table" /\ pc = "run"
  /\ IF steps >= Len(input) \/ pos + 24 > 24 * Len(input) THEN pc' = "done" /\ UNCHANGED <<pos, steps>>
     ELSE IF pos % 24 = 0 /\ EntryAt(pos) = "end" THEN pc' = "done" /\ UNCHANGED <<pos, steps>>
     ELSE LET e == IF pos % 24 = 0 THEN EntryAt(pos) ELSE "bad_name"             \* misaligned bytes: anything; take the worst
              used == CASE e = "bad_name" -> 12 [] e = "bad_type" -> 17 [] OTHER -> 24
          IN /\ pos' = IF TableScanRealigns THEN pos + 24 ELSE pos + used
             /\ steps' = steps + 1 /\ UNCHANGED pc
  /\ UNCHANGED <<input, pushed>>

KgStep ==
  /\ Kind = "keygroups" /\ pc = "run"
  /\ IF steps >= Len(input) THEN pc' = "done" /\ UNCHANGED <<pos, steps>>
     ELSE LET nxt == input[steps + 1] IN
          /\ pos' = IF nxt > 0 /\ steps < Len(input) - 1 THEN nxt ELSE pos + 1     \* Seek(next) or continue behind the keygroup
          /\ steps' = steps + 1 /\ UNCHANGED pc
  /\ UNCHANGED <<input, pushed>>

\* cue: pos = number of lines consumed; a TRACK line met inside a track is pushed back once and then consumed
CueStep ==
  /\ Kind = "cue" /\ pc = "run"
  /\ IF pos >= Len(input) THEN pc' = "done" /\ UNCHANGED <<pos, steps, pushed>>
     ELSE IF input[pos + 1] = "TRACK" /\ ~pushed
            THEN pushed' = TRUE /\ steps' = steps + 1 /\ UNCHANGED <<pos, pc>>      \* lines = [text] + lines
            ELSE pushed' = FALSE /\ pos' = pos + 1 /\ steps' = steps + 1 /\ UNCHANGED pc
  /\ UNCHANGED input

Next == Build \/ PartStep \/ TableStep \/ KgStep \/ CueStep
Spec == Init /\ [][Next]_vars /\ WF_vars(Next)

Terminates == <>(pc = "done")
\* C14 at design level: every iteration of the table scan starts on an entry boundary, so a damaged entry cannot
\* change how the others are read
Aligned == (Kind = "table" /\ pc = "run") => pos % 24 = 0
StepBound == steps <= 2 * Len(input) + 1
=============================================================================
