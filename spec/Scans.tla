-------------------------------- MODULE Scans --------------------------------
(***************************************************************************)
(* The loops of smpl_extract that consume untrusted structure, each with   *)
(* its variant (C13).  One action = one loop iteration.                    *)
(*                                                                         *)
(*  "partitions" akai/image.py _load_partitions: while tell < file_size:   *)
(*               parse a partition; the stream ends at start + size*S      *)
(*               (Lazy skip, possibly backwards when size*S is smaller     *)
(*               than the fixed head); size <= 0 or a bad header stops     *)
(*  "table"      akai/file_entry.py: for _ in range(size // 24): end       *)
(*               marker test, entry parse (a failed parse leaves the       *)
(*               stream where it failed: Realign = FALSE as implemented)   *)
(*  "keygroups"  akai/program.py: number_of_keygroups iterations, each     *)
(*               optionally seeking to an arbitrary next address           *)
(*  "cue"        cuesheet.py: every call of get_nonempty_entry pops >= 1   *)
(*               line; a pushed-back line is consumed by the callee        *)
(*  "trim"       structural.py make_export_name: dropping one trailing dot *)
(*               and the blanks before it from an export name.  As first   *)
(*               written this was the regular expression                   *)
(*               (.+?)\s*\.?\s*$ run by a backtracking matcher: one        *)
(*               iteration per candidate prefix, each costing one end test *)
(*               per way of splitting the blanks behind it between the two *)
(*               \s* (TrimBacktracks = TRUE, D19: cubic in a run of        *)
(*               blanks); repaired: look at the last character, then strip *)
(*               blanks backwards                                          *)
(* (The allocation-table walks are in AllocWalk.tla.)                      *)
(* Properties: Terminates, and StepBound: the number of iterations never   *)
(* exceeds a linear function of the input size.                            *)
(***************************************************************************)
EXTENDS Integers, Sequences, FiniteSets, TLC

CONSTANTS TableScanRealigns,          \* (D6) TRUE: after a failed entry parse the scan continues at the next entry boundary
          TrimBacktracks,             \* (D19) TRUE: the ending of an export name is trimmed by a backtracking regular expression
          Kind, MaxSize, S, HeadLen   \* S: sector size in units, HeadLen: fixed head of a partition in units

VARIABLES input, pos, steps, pc, pushed
vars == <<input, pos, steps, pc, pushed>>

\* inputs: "partitions": sequence of size fields, one per sector of the file (0 = bad header, 1.. = size)
\*         "table": sequence of entry kinds ("ok" | "bad" | "end") ; "keygroups": sequence of next addresses
\*         "cue": sequence of line classes
Alphabet == CASE Kind = "partitions" -> 0..3
              [] Kind = "table" -> {"ok", "bad_name", "bad_type", "bad_start", "end"}
              [] Kind = "keygroups" -> 0..MaxSize
              [] Kind = "trim" -> {"w", " ", "."}
              [] OTHER -> {"FILE", "TRACK", "INDEX", "OTHER", "BLANK"}

Init == input = <<>> /\ pos = 0 /\ steps = 0 /\ pc = "build" /\ pushed = FALSE
Build == /\ pc = "build"
         /\ \/ (Len(input) < MaxSize /\ \E a \in Alphabet : input' = Append(input, a) /\ UNCHANGED pc)
            \/ (input' = input /\ pc' = "run")
         /\ UNCHANGED <<pos, steps, pushed>>

\* file_size = Len(input) * S units; a partition header sits at a sector boundary only if pos % S = 0
PartStep ==
  /\ Kind = "partitions" /\ pc = "run"
  /\ IF pos >= Len(input) * S THEN pc' = "done" /\ UNCHANGED <<pos, steps>>
     ELSE LET sz == IF pos % S = 0 THEN input[pos \div S + 1] ELSE 0 IN
          IF sz <= 0 THEN pc' = "done" /\ UNCHANGED <<pos, steps>>                 \* InvalidPartition / ConstructError: break
          ELSE pos' = pos + sz * S /\ steps' = steps + 1 /\ UNCHANGED pc           \* also when sz * S < HeadLen (backward Lazy skip)
  /\ UNCHANGED <<input, pushed>>

\* pos counts BYTES; entry k occupies [24(k-1), 24k).  A parse that fails on the name stops after 12 bytes, on the type
\* byte after 17; a start sector beyond the table is detected after the whole entry was read.
EntryAt(p) == input[p \div 24 + 1]
TableStep ==
  /\ Kind = "table" /\ pc = "run"
  /\ IF steps >= Len(input) \/ pos + 24 > 24 * Len(input) THEN pc' = "done" /\ UNCHANGED <<pos, steps>>
     ELSE IF pos % 24 = 0 /\ EntryAt(pos) = "end" THEN pc' = "done" /\ UNCHANGED <<pos, steps>>
     ELSE LET e == IF pos % 24 = 0 THEN EntryAt(pos) ELSE "bad_name"             \* misaligned bytes: anything; take the worst
              used == CASE e = "bad_name" -> 12 [] e = "bad_type" -> 17 [] OTHER -> 24
          IN /\ pos' = IF TableScanRealigns THEN pos + 24 ELSE pos + used
             /\ steps' = steps + 1 /\ UNCHANGED pc
  /\ UNCHANGED <<input, pushed>>

KgStep ==
  /\ Kind = "keygroups" /\ pc = "run"
  /\ IF steps >= Len(input) THEN pc' = "done" /\ UNCHANGED <<pos, steps>>
     ELSE LET nxt == input[steps + 1] IN
          /\ pos' = IF nxt > 0 /\ steps < Len(input) - 1 THEN nxt ELSE pos + 1     \* Seek(next) or continue behind the keygroup
          /\ steps' = steps + 1 /\ UNCHANGED pc
  /\ UNCHANGED <<input, pushed>>

\* cue: pos = number of lines consumed; a TRACK line met inside a track is pushed back once and then consumed
CueStep ==
  /\ Kind = "cue" /\ pc = "run"
  /\ IF pos >= Len(input) THEN pc' = "done" /\ UNCHANGED <<pos, steps, pushed>>
     ELSE IF input[pos + 1] = "TRACK" /\ ~pushed
            THEN pushed' = TRUE /\ steps' = steps + 1 /\ UNCHANGED <<pos, pc>>      \* lines = [text] + lines
            ELSE pushed' = FALSE /\ pos' = pos + 1 /\ steps' = steps + 1 /\ UNCHANGED pc
  /\ UNCHANGED input

\* trim: the name is stripped (no blank at either end).  pos = length of the candidate prefix / of the result.
Stripped == input # <<>> /\ input[1] # " " /\ input[Len(input)] # " "
Blanks(from) == LET ks == {k \in 0..(Len(input) - from + 1) : \A j \in from..(from + k - 1) : input[j] = " "} IN
                CHOOSE k \in ks : \A m \in ks : m <= k                       \* length of the run of blanks starting at from
\* end positions the matcher tests for prefix i, in its order: first \s* takes a = run..0 blanks; then with the dot
\* (if there is one) the second \s* takes m = run'..0 blanks; then without the dot m = (run - a)..0
RECURSIVE Down(_, _)
Down(base, m) == IF m < 0 THEN <<>> ELSE <<base + m>> \o Down(base, m - 1)
RECURSIVE Tests(_, _)
Tests(i, a) == IF a < 0 THEN <<>>
               ELSE (IF i + a + 1 <= Len(input) /\ input[i + a + 1] = "." THEN Down(i + a + 1, Blanks(i + a + 2)) ELSE <<>>)
                    \o Down(i + a, Blanks(i + 1) - a) \o Tests(i, a - 1)
FirstHit(t) == IF \E k \in 1..Len(t) : t[k] = Len(input)
               THEN CHOOSE k \in 1..Len(t) : t[k] = Len(input) /\ \A j \in 1..(k - 1) : t[j] # Len(input) ELSE 0
TrimmedLen == IF Len(input) > 1 /\ input[Len(input)] = "."
              THEN CHOOSE r \in 1..(Len(input) - 1) : input[r] # " " /\ \A j \in (r + 1)..(Len(input) - 1) : input[j] = " "
              ELSE Len(input)
TrimStep ==
  /\ Kind = "trim" /\ pc = "run"
  /\ IF ~Stripped THEN pc' = "done" /\ pos' = Len(input) /\ UNCHANGED steps     \* outside the domain (the caller strips first)
     ELSE IF TrimBacktracks
     THEN LET i == pos + 1                                                       \* lazy (.+?): try the next longer prefix
              t == Tests(i, Blanks(i + 1)) IN
          IF FirstHit(t) # 0 THEN /\ pos' = i /\ steps' = steps + FirstHit(t) /\ pc' = "done"
          ELSE /\ pos' = i /\ steps' = steps + Len(t) /\ UNCHANGED pc
     ELSE IF pos = 0                                                             \* look at the last character
          THEN /\ steps' = steps + 1
               /\ IF Len(input) > 1 /\ input[Len(input)] = "." THEN pos' = Len(input) - 1 /\ UNCHANGED pc
                  ELSE pos' = Len(input) /\ pc' = "done"
          ELSE IF input[pos] = " " THEN pos' = pos - 1 /\ steps' = steps + 1 /\ UNCHANGED pc       \* rstrip, one blank per step
               ELSE pc' = "done" /\ UNCHANGED <<pos, steps>>
  /\ UNCHANGED <<input, pushed>>

Next == Build \/ PartStep \/ TableStep \/ KgStep \/ CueStep \/ TrimStep
Spec == Init /\ [][Next]_vars /\ WF_vars(Next)

Terminates == <>(pc = "done")
\* C14 at design level: every iteration of the table scan starts on an entry boundary, so a damaged entry cannot
\* change how the others are read
Aligned == (Kind = "table" /\ pc = "run") => pos % 24 = 0
StepBound == steps <= 2 * Len(input) + 1
\* both ways of trimming give the same name: everything before the blanks before one trailing dot
TrimResult == (Kind = "trim" /\ pc = "done" /\ Stripped) => pos = TrimmedLen
=============================================================================
