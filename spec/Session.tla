------------------------------ MODULE Session ------------------------------
(***************************************************************************)
(* One opened image object used for several requests (C16).                *)
(*                                                                         *)
(*  structural.py  Traversable.children: children are realised lazily,     *)
(*                 renamed once by the routines and memoised;              *)
(*                 ExportManager: a new manager per export                 *)
(*  akai/sample.py, cdda/image.py: ONE data stream object per sample whose *)
(*                 cursor survives between requests                        *)
(*                                                                         *)
(* State: which directories are realised, and where each sample's data     *)
(* stream cursor stands.  Requests: Ls(target) / Export.  The result of a  *)
(* request is a function of the image and of this state; ResultEqualsFresh *)
(* says it must not depend on the state.                                   *)
(* Named deviation RewindOnExport (D11): TRUE = exporting starts every     *)
(* stream from its beginning.                                              *)
(***************************************************************************)
EXTENDS Integers, Sequences, FiniteSets, TLC, Json

CONSTANTS NDirs, NFiles,        \* directories 1..NDirs, each with files 1..NFiles
          Targets,              \* set of ls targets: <<"root">>, <<"dir", d>>, <<"file", d, f>>, <<"bad">>
          MaxOps, RewindOnExport, EmitCases

VARIABLES realized, cursor, hist
vars == <<realized, cursor, hist>>

Files == (1..NDirs) \X (1..NFiles)
Init == realized = {} /\ cursor = [x \in Files |-> 0] /\ hist = <<>>      \* cursor: 0 = at start, 1 = at end

\* what a request returns given the state (abstractly): listings depend on nothing; an exported file is
\* "full" when its stream is read from the start, "empty" when the cursor was left at the end
LsResult(t) == <<"listing", t>>
ExportResult == [x \in Files |-> IF RewindOnExport \/ cursor[x] = 0 THEN "full" ELSE "empty"]
FreshExport == [x \in Files |-> "full"]

Ls(t) == /\ realized' = realized \cup (IF t[1] = "root" THEN {0}
                                       ELSE IF t[1] \in {"dir", "file"} THEN {0, t[2]} ELSE {0})
         /\ hist' = Append(hist, [op |-> t, result |-> LsResult(t), fresh |-> LsResult(t)])
         /\ UNCHANGED cursor
Export == /\ realized' = {0} \cup (1..NDirs)
          /\ cursor' = [x \in Files |-> 1]
          /\ hist' = Append(hist, [op |-> <<"export">>, result |-> ExportResult, fresh |-> FreshExport])
Next == Len(hist) < MaxOps /\ ((\E t \in Targets : Ls(t)) \/ Export)
Spec == Init /\ [][Next]_vars

ResultEqualsFresh == \A k \in 1..Len(hist) : hist[k].result = hist[k].fresh
\* the image is only ever read: no action writes to it (there is no such action; stated for the record)
ImageUnmodified == TRUE
Emit == (EmitCases /\ Len(hist) = MaxOps) => PrintT(<<"CASE", ToJson([ops |-> [k \in 1..Len(hist) |-> hist[k].op]])>>)
=============================================================================
