-------------------------------- MODULE Smpl --------------------------------
(***************************************************************************)
(* What the `smpl` chunk of an exported AKAI sample says, as a function of  *)
(* the stored header.  Code anchors:                                       *)
(*   akai/sample.py   LoopEntryAdapter._decode   (at, length) -> start/end  *)
(*                    SampleAdapter._decode_element   active loops, rate 0  *)
(*                    AkaiSample.to_generalized   play count, skipped loops *)
(*   akai/data_types.py parse_akai_tune_cents     byte -> cents (n/255)     *)
(*   generalized/wav.py get_smpl_normalized_pitch, get_smpl_chunk_data      *)
(*   formats/wav.py   WavSampleChunkStruct / WavLoopStruct (u32 fields)     *)
(* One operator per code step; the chunk is `Chunk(h)`, the header values   *)
(* the builder refuses (a u32 field cannot hold the value) are `Refused(h)`.*)
(* Numbers that need more than 31 bits are pairs <<hi, lo>> of 16-bit limbs *)
(* (hi may reach 65536 = "does not fit 32 bits").                          *)
(* Floats: the code computes in doubles; every quotient below has an odd   *)
(* denominator or is far (> 1e-5) from a rounding boundary except exact    *)
(* ties of the play count, where both neighbours are admitted (PlaySet).   *)
(***************************************************************************)
EXTENDS Integers, Sequences, FiniteSets

Inactive == 2                      \* AkaiLoopType.LOOP_INACTIVE
Forever  == 9999                   \* loop_duration >= 9999 : hold

Max(a, b) == IF a > b THEN a ELSE b
FloorDiv(a, b) == a \div b         \* TLA+ \div floors for b > 0, like Python //
Nearest(a, b) == (2 * a + b) \div (2 * b)      \* a >= 0, b > 0, ties cannot occur where it is used
NearestSet(a, b) == LET q == a \div b  r == a % b IN
                    IF 2 * r < b THEN {q} ELSE IF 2 * r > b THEN {q + 1} ELSE {q, q + 1}

\* --- tuning ------------------------------------------------------------
\* cents byte x (signed) -> cents * 255 ;  0 is special-cased by the code
Cents255(x) == IF x = 0 THEN 0 ELSE 100 * x + 50
\* comb_cents = 50 * semi + cents   (the code's unit: one semitone byte = 50)
Comb255(h) == 12750 * h.semi + Cents255(h.cb)
NoteOffset(h) == FloorDiv(Comb255(h), 25500)
CentsOff255(h) == Comb255(h) % 25500                       \* in 0..25499
\* pitch_fraction = round(cents_offset * 2^31 / 50) = round(M * 2^30 / 6375), M = CentsOff255
\* 2^30 = 168430 * 6375 + 574 ; 168430 = 2 * 65536 + 37358
FracLimbs(h) == LET M   == CentsOff255(h)
                    lo0 == M * 37358 + Nearest(M * 574, 6375)
                IN  <<2 * M + lo0 \div 65536, lo0 % 65536>>
UnityNote(h) == h.root + NoteOffset(h)       \* AKAI root byte = MIDI byte (both A0 = 21)

\* --- rate and loops -----------------------------------------------------
Rate(h) == IF h.rate = 0 THEN 44100 ELSE h.rate
Period(h) == Nearest(1000000000, Rate(h))
Entry(e) == [start |-> Max((e.at - 1) - e.co, 0), end |-> e.at, dur |-> e.dur, forever |-> e.dur >= Forever]
Active(h) == IF h.lt = Inactive THEN <<>>
             ELSE LET RECURSIVE Sel(_)
                      Sel(s) == IF s = <<>> THEN <<>>
                                ELSE (IF Head(s).dur > 0 THEN <<Entry(Head(s))>> ELSE <<>>) \o Sel(Tail(s))
                  IN Sel(h.loops)
\* to_generalized drops a counted loop of zero length; the others keep their order
Kept(h) == LET RECURSIVE Sel(_)
               Sel(s) == IF s = <<>> THEN <<>>
                         ELSE (IF ~Head(s).forever /\ Head(s).end = Head(s).start THEN <<>> ELSE <<Head(s)>>) \o Sel(Tail(s))
           IN Sel(Active(h))
\* play count of a kept loop: 0 = forever; else round(dur / ((end - start) / rate))
PlaySet(h, e) == IF e.forever THEN {0} ELSE NearestSet(e.dur * Rate(h), e.end - e.start)
\* the loop table the chunk must hold: cue ids count the KEPT loops from 0
Loops(h) == [i \in 1..Len(Kept(h)) |-> [cue |-> i - 1, type |-> 0, start |-> Kept(h)[i].start, end |-> Kept(h)[i].end, frac |-> 0]]

Refused(h) == UnityNote(h) < 0 \/ FracLimbs(h)[1] >= 65536

Chunk(h) == [period |-> Period(h), note |-> UnityNote(h), fhi |-> FracLimbs(h)[1], flo |-> FracLimbs(h)[2], loops |-> Loops(h)]

\* --- which files carry the chunk, and merged pairs ----------------------------
\* generalized/wav.py: the chunk is written when the sample has a root key, a tuning or a loop: AKAI and Roland samples
\* always have a root key, a CDDA track has none of the three
HasSmpl(kind) == kind # "cdda"
\* generalized/sample.py combine_stereo: the merged sample is a field-by-field copy of the LEFT half with the right half's
\* stream appended - whatever the right half's header says about key, tuning and loops is dropped
PairChunk(left, right) == Chunk(left)
PairRefused(left, right) == Refused(left)

\* --- judging one observation -------------------------------------------
\* obs = [refused, period, note, fhi, flo, loops : Seq([cue,type,start,end,frac,cnt])]
Failed(h, obs) ==
  IF Refused(h) THEN (IF obs.refused THEN {} ELSE {"built_although_a_field_overflows"})
  ELSE IF obs.refused THEN {"refused_without_cause"}
  ELSE LET c == Chunk(h) IN
       (IF obs.period = c.period THEN {} ELSE {"sample_period"})
  \cup (IF obs.note = c.note THEN {} ELSE {"unity_note"})
  \cup (IF obs.fhi = c.fhi /\ obs.flo = c.flo THEN {} ELSE {"pitch_fraction"})
  \cup (IF Len(obs.loops) = Len(c.loops) THEN {} ELSE {"loop_count"})
  \cup (IF Len(obs.loops) = Len(c.loops)
           /\ \A i \in 1..Len(c.loops) : /\ obs.loops[i].cue = c.loops[i].cue /\ obs.loops[i].type = 0 /\ obs.loops[i].frac = 0
                                         /\ obs.loops[i].start = c.loops[i].start /\ obs.loops[i].end = c.loops[i].end
        THEN {} ELSE {"loop_points"})
  \cup (IF Len(obs.loops) = Len(c.loops) /\ \A i \in 1..Len(c.loops) : obs.loops[i].cnt \in PlaySet(h, Kept(h)[i])
        THEN {} ELSE {"play_count"})

CONSTANTS Roots, Semis, CentBytes, Rates, LoopTypes, Ats, Lens, Durs, MaxLoops, RPoints
VARIABLE h

\* --- Roland S-7xx: roland/s7xx/sample_file.py, one operator per loop mode -------------
\* r = [mode, pts = <<start, sustain start, sustain end, release start, release end>>, key, rate]
\* loop points are relative to the start point, never negative; the tool gives no play count (0) and no tuning
Rel(r, k) == Max(0, r.pts[k] - r.pts[1])
RLoop(t, a, b) == [type |-> t, start |-> a, end |-> b]
RolandRegions(r) ==
  CASE r.mode = 1 -> <<RLoop(0, Rel(r, 2), Rel(r, 3)), RLoop(0, Rel(r, 4), Rel(r, 5))>>       \* forward, release loop
    [] r.mode = 2 -> <<>>                                                                     \* one shot
    [] r.mode = 3 -> <<RLoop(0, Rel(r, 2), Rel(r, 3))>>                                       \* forward then one shot
    [] r.mode = 4 -> <<RLoop(1, Rel(r, 2), Rel(r, 3))>>                                       \* alternating
    [] r.mode = 5 -> <<>>                                                                     \* reverse one shot
    [] r.mode = 6 -> <<RLoop(0, Max(0, r.pts[3] - r.pts[1]), Max(0, r.pts[3] - r.pts[2]))>>    \* reverse loop: mirrored in the reversed window
    [] OTHER      -> <<RLoop(0, Rel(r, 2), Rel(r, 3))>>                                       \* forward to the sustain end (mode 0 and unknown modes)
RolandChunk(r) == [period |-> Nearest(1000000000, r.rate), note |-> r.key, fhi |-> 0, flo |-> 0,
                   loops |-> [i \in 1..Len(RolandRegions(r)) |-> [cue |-> i - 1, type |-> RolandRegions(r)[i].type,
                                                                   start |-> RolandRegions(r)[i].start, end |-> RolandRegions(r)[i].end, frac |-> 0]]]
FailedRoland(r, obs) ==
  IF obs.refused THEN {"refused_without_cause"}
  ELSE LET c == RolandChunk(r) IN
       (IF obs.period = c.period THEN {} ELSE {"sample_period"})
  \cup (IF obs.note = c.note THEN {} ELSE {"unity_note"})
  \cup (IF obs.fhi = 0 /\ obs.flo = 0 THEN {} ELSE {"pitch_fraction"})
  \cup (IF Len(obs.loops) = Len(c.loops) THEN {} ELSE {"loop_count"})
  \cup (IF Len(obs.loops) = Len(c.loops)
           /\ \A i \in 1..Len(c.loops) : /\ obs.loops[i].cue = c.loops[i].cue /\ obs.loops[i].type = c.loops[i].type /\ obs.loops[i].frac = 0
                                         /\ obs.loops[i].start = c.loops[i].start /\ obs.loops[i].end = c.loops[i].end
        THEN {} ELSE {"loop_points"})
  \cup (IF \A i \in 1..Len(obs.loops) : obs.loops[i].cnt = 0 THEN {} ELSE {"play_count"})
\* every loop of a Roland chunk lies inside the exported window when the stored points are ordered (start <= loop start <= loop end <= window end)
RolandOrdered(r) == r.pts[1] <= r.pts[2] /\ r.pts[2] <= r.pts[3] /\ (r.mode = 1 => r.pts[3] <= r.pts[4] /\ r.pts[4] <= r.pts[5])
RolandFrames(r) == (IF r.mode \in {1, 3} THEN r.pts[5] ELSE r.pts[3]) - r.pts[1] + 1
RolandLoopsInsideWindow == \A m \in 0..7 : \A a, b, c, d, e \in RPoints :
  LET r == [mode |-> m, pts |-> <<a, b, c, d, e>>, key |-> 60, rate |-> 44100] IN
  (RolandOrdered(r) /\ (m = 3 => c <= e)) => \A i \in 1..Len(RolandRegions(r)) :
       /\ RolandRegions(r)[i].end < RolandFrames(r) /\ RolandRegions(r)[i].start < RolandFrames(r)
       \* as implemented, the reverse loop (mode 6) runs from the LAST frame of the reversed window (the mirror image of the
       \* start point) to the mirror image of the sustain start, i.e. start >= end; the mirror image of [sustain start,
       \* sustain end] would be [0, end].  Recorded as the code's behaviour; no listed property speaks about loop points in the WAV.
       /\ (m # 6 => RolandRegions(r)[i].start <= RolandRegions(r)[i].end)
       /\ (m = 6 => RolandRegions(r)[i].start = RolandFrames(r) - 1 /\ RolandRegions(r)[i].end <= RolandRegions(r)[i].start)

\* --- design model: every header over small corner domains ---------------
Loop == [at : Ats, co : Lens, dur : Durs]
Headers == [root : Roots, semi : Semis, cb : CentBytes, rate : Rates, lt : LoopTypes,
            loops : UNION {[1..n -> Loop] : n \in 0..MaxLoops}]
Init == h \in Headers
Next == UNCHANGED h

TypeOK == /\ CentsOff255(h) \in 0..25499
          /\ 25500 * NoteOffset(h) + CentsOff255(h) = Comb255(h)
          /\ FracLimbs(h)[2] \in 0..65535 /\ FracLimbs(h)[1] \in 0..65536
\* what the chunk of an accepted header always satisfies (consequences a reader of the WAV relies on)
ChunkSound == ~Refused(h) =>
  LET c == Chunk(h) IN
  /\ c.note >= 0 /\ c.period >= 1
  /\ Len(c.loops) <= Len(h.loops) /\ (h.lt = Inactive => c.loops = <<>>)
  /\ \A i \in 1..Len(c.loops) : c.loops[i].cue = i - 1 /\ c.loops[i].start <= c.loops[i].end
  /\ \A i \in 1..Len(c.loops) : (~Kept(h)[i].forever => c.loops[i].start < c.loops[i].end)
\* the pitch is conserved: unity note * 100 cents + fraction = root * 100 + 50 * semi + cents (in 1/255 cent)
PitchConserved == 25500 * (UnityNote(h) - h.root) + CentsOff255(h) = Comb255(h)
\* the fraction is monotone in the residue and never reaches a full semitone unless refused
FracBelowSemitone == ~Refused(h) => FracLimbs(h)[1] <= 65535
\* clauses bite: a chunk that differs in one field from the model's is rejected
Obs(c, hh) == [refused |-> FALSE, period |-> c.period, note |-> c.note, fhi |-> c.fhi, flo |-> c.flo,
               loops |-> [i \in 1..Len(c.loops) |-> [cue |-> c.loops[i].cue, type |-> 0, start |-> c.loops[i].start, end |-> c.loops[i].end,
                                                     frac |-> 0, cnt |-> CHOOSE n \in PlaySet(hh, Kept(hh)[i]) : TRUE]]]
ClausesBite == ~Refused(h) =>
  LET o == Obs(Chunk(h), h) IN
  /\ Failed(h, o) = {}
  /\ "sample_period" \in Failed(h, [o EXCEPT !.period = @ + 1])
  /\ "unity_note" \in Failed(h, [o EXCEPT !.note = @ + 1])
  /\ "pitch_fraction" \in Failed(h, [o EXCEPT !.flo = (@ + 1) % 65536])
  /\ "refused_without_cause" \in Failed(h, [o EXCEPT !.refused = TRUE])
  /\ (o.loops # <<>> => /\ "loop_count" \in Failed(h, [o EXCEPT !.loops = Tail(@)])
                        /\ "loop_points" \in Failed(h, [o EXCEPT !.loops[1].start = @ + 1])
                        /\ "loop_points" \in Failed(h, [o EXCEPT !.loops[1].cue = @ + 1])
                        /\ "play_count" \in Failed(h, [o EXCEPT !.loops[1].cnt = @ + 2]))
ASSUME RolandLoopsInsideWindow
RefusalBites == Refused(h) => "built_although_a_field_overflows" \in Failed(h, [refused |-> FALSE])
=============================================================================
