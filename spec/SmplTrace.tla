------------------------------ MODULE SmplTrace ------------------------------
(***************************************************************************)
(* Trace validation of smpl-chunk contents: each ndjson line holds the AKAI *)
(* header values a sample was stored with (hdr) and what an independent     *)
(* RIFF walker read from the smpl chunk of the file the real tool built     *)
(* from it (obs; obs.refused = the tool raised instead of building).  A     *)
(* line (kind akai / roland) is accepted iff Smpl!Failed / FailedRoland = {}.  The whole batch is     *)
(* consumed; rejected lines are reported with the failing clauses.         *)
(***************************************************************************)
EXTENDS Smpl, Json, IOUtils, TLC

TraceLog == ndJsonDeserialize(IOEnv.TRACE_FILE)

VARIABLES l, rejected
tvars == <<h, l, rejected>>

TraceInit == /\ h = [root |-> 60, semi |-> 0, cb |-> 0, rate |-> 44100, lt |-> 2, loops |-> <<>>]
             /\ l = 1 /\ rejected = <<>>
TraceNext == /\ l <= Len(TraceLog)
             /\ LET bad == IF TraceLog[l].kind = "roland" THEN FailedRoland(TraceLog[l].hdr, TraceLog[l].obs) ELSE Failed(TraceLog[l].hdr, TraceLog[l].obs) IN
                rejected' = IF bad = {} THEN rejected ELSE Append(rejected, [line |-> l, id |-> TraceLog[l].id, clauses |-> bad])
             /\ l' = l + 1 /\ UNCHANGED h
TraceSpec == TraceInit /\ [][TraceNext]_tvars

Report == (l = Len(TraceLog) + 1) => PrintT(<<"CASE", ToJson([lines |-> Len(TraceLog), rejected |-> rejected])>>)
TraceAccepted == TLCGet("stats").diameter = Len(TraceLog) + 1
=============================================================================
