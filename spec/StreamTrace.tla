----------------------------- MODULE StreamTrace -----------------------------
(***************************************************************************)
(* Trace validation of the stream cursor protocol (util/stream.py hooks    *)
(* View / Seek / Read) for C08 / C11 on executions of the real tool:       *)
(* for every view, independently of what happens on other views,           *)
(*   Read:  the logged start position is the view's position (continuity), *)
(*          after = pos + max(0, min(n, size - pos)), len = after - pos    *)
(*   Seek:  after = clamp(start + off, 0, size) with start given by whence *)
(* i.e. the per-view transition relation of Streams.tla restricted to the  *)
(* logged scalars.  Batch mode with trace ids as in ExportTrace.tla.       *)
(***************************************************************************)
EXTENDS Integers, Sequences, FiniteSets, TLC, Json, IOUtils

TraceLog == ndJsonDeserialize(IOEnv.TRACE_FILE)

VARIABLES l, tid, views, rejected
vars == <<l, tid, views, rejected>>

Min(a, b) == IF a < b THEN a ELSE b
Max(a, b) == IF a > b THEN a ELSE b
Clamp(x, lo, hi) == Max(lo, Min(x, hi))
Init == l = 1 /\ tid = -1 /\ views = <<>> /\ rejected = <<>>       \* views: function id -> [size, pos]

Known(vs, i) == i \in DOMAIN vs
Put(vs, i, r) == [k \in DOMAIN vs \cup {i} |-> IF k = i THEN r ELSE vs[k]]

Step ==
  /\ l <= Len(TraceLog)
  /\ LET e == TraceLog[l]
         vs == IF e.tid # tid THEN <<>> ELSE views
         bad ==
           CASE e.event = "View" -> {}
             [] e.event = "Read" ->
                  IF ~Known(vs, e.id) THEN {"read_on_unknown_view"}
                  ELSE LET v == vs[e.id] IN
                       (IF e.pos = v.pos THEN {} ELSE {"position_not_continuous"})
                       \cup (IF e.after = e.pos + Max(0, Min(e.n, v.size - e.pos)) THEN {} ELSE {"advance_not_clipped_request"})
                       \cup (IF e.len = e.after - e.pos \/ (e.short /\ e.len <= e.after - e.pos) THEN {} ELSE {"length_not_advance"})
             [] e.event = "Seek" ->
                  IF ~Known(vs, e.id) THEN {"seek_on_unknown_view"}
                  ELSE LET v == vs[e.id]
                           st == CASE e.whence = 1 -> v.pos [] e.whence = 2 -> v.size [] OTHER -> 0 IN
                       (IF e.start = st THEN {} ELSE {"seek_start_wrong"})
                       \cup (IF e.after = Clamp(st + e.off, 0, v.size) THEN {} ELSE {"seek_not_clamped"})
             [] OTHER -> {}
     IN /\ views' = CASE e.event = "View" -> Put(vs, e.id, [size |-> e.size, pos |-> e.pos])
                      [] e.event \in {"Read", "Seek"} /\ Known(vs, e.id) -> Put(vs, e.id, [size |-> vs[e.id].size, pos |-> e.after])
                      [] OTHER -> vs
        /\ rejected' = IF bad = {} THEN rejected ELSE Append(rejected, [line |-> l, tid |-> e.tid, clauses |-> bad])
        /\ tid' = e.tid /\ l' = l + 1
Spec == Init /\ [][Step]_vars

Report == (l = Len(TraceLog) + 1) => PrintT(<<"CASE", ToJson([lines |-> Len(TraceLog), rejected |-> rejected])>>)
TraceAccepted == TLCGet("stats").diameter = Len(TraceLog) + 1
=============================================================================
