------------------------------ MODULE Streams ------------------------------
(***************************************************************************)
(* The cursor machine of smpl_extract: read-only byte views layered over   *)
(* ONE shared file handle.                                                 *)
(*                                                                         *)
(*   util/stream.py  StreamWrapper (k="wrap"), StreamOffset (k="off"),     *)
(*                   StreamReversed (k="rev"): seek / tell / read /        *)
(*                   readall incl. true_size clipping and the              *)
(*                   `substream.tell()` re-seek test                       *)
(*   util/sector.py  SectorStream (k="sect"): three-part sector split      *)
(*   util/fat.py     FileStream (k="chain"): sector list indirection       *)
(*   alcohol/mdf.py  MdfStream (k="mdf"): header/body/tail raw sectors     *)
(*                                                                         *)
(* A configuration is a sequence of views; view i's parent is an earlier   *)
(* view or 0 = the underlying file (one cursor `fpos`, possibly shorter    *)
(* than the windows laid over it = a truncated image).                     *)
(*                                                                         *)
(* Operations are defined OPERATIONALLY, statement by statement like the   *)
(* code (Seek, Read, ReadAll, Tell; exceptions abort the call and leave    *)
(* the assignments made before the raise in place).  The MEANING of a      *)
(* view, Logical(v), is defined DECLARATIVELY and independently.  The      *)
(* properties relate the two:                                              *)
(*   C08  ReadReturnsLogicalSlice, PosAdvancesByLen, SeekClamps,           *)
(*        ReversedRejectsMisaligned                                        *)
(*   C11  the same invariants when operations on different views sharing   *)
(*        the handle are interleaved freely (result depends only on the    *)
(*        view's own position and content)                                 *)
(*   C15  ShortFileGivesPrefix: over a short file a read either returns    *)
(*        the logical slice or fails; it never returns other bytes         *)
(*                                                                         *)
(* Named deviations:                                                       *)
(*   ZeroReadAtChainEnd  (D1) TRUE: a zero-length sector read returns ""   *)
(*   EmptyWindowReadsNothing (D17) TRUE: a window of length 0 is clipped    *)
(*                       like any other (FALSE: read as unbounded)         *)
(*   ReseekTest          TRUE: read re-seeks the substream when its        *)
(*                       position is not the expected one (mutant FALSE)   *)
(***************************************************************************)
EXTENDS Integers, Sequences, FiniteSets, TLC, Json

CONSTANTS Configs,        \* set of configurations: [base |-> B, flen |-> F, views |-> <<view,...>>, targets |-> {..}]
          Depth,          \* history length (when KeepHist)
          KeepHist,       \* TRUE: hist is the whole behaviour (for replay); FALSE: only the last call,
                          \*       so the state graph is finite without a depth bound
          OpViews,        \* "targets" | "top" : operations are issued on cfg.targets / on the last view only
          ZeroReadAtChainEnd, ReseekTest, EmptyWindowReadsNothing,
          EmitCases

VARIABLES cfg, st, hist
vars == <<cfg, st, hist>>

Min(a, b) == IF a < b THEN a ELSE b
Max(a, b) == IF a > b THEN a ELSE b
Clamp(x, lo, hi) == Max(lo, Min(x, hi))

\* The file content: byte at address a (0-based) is the token a+1 (so every byte names its origin);
\* the file holds flen bytes (flen < base models a truncated image).
FileRead(c, pos, n) == [k \in 1..Max(0, Min(n, c.flen - pos)) |-> pos + k]

\* ---- declarative meaning --------------------------------------------------
\* Logical(c, v) is the sequence of file tokens view v stands for, over the COMPLETE file (length base).
RECURSIVE Logical(_, _)
SampleReverse(s, w) == [k \in 1..Len(s) |-> s[(Len(s) \div w - 1 - (k - 1) \div w) * w + ((k - 1) % w) + 1]]
Logical(c, v) ==
  IF v = 0 THEN [k \in 1..c.base |-> k]
  ELSE LET d == c.views[v]
           p == Logical(c, d.par)
       IN CASE d.k = "wrap"  -> SubSeq(p, 1, d.size)
            [] d.k = "off"   -> SubSeq(p, d.off + 1, d.off + d.size)
            [] d.k = "sect"  -> SubSeq(p, 1, d.size)
            [] d.k = "chain" -> [k \in 1..(d.slen * Len(d.list)) |->
                                   p[d.list[(k - 1) \div d.slen + 1] * d.slen + ((k - 1) % d.slen) + 1]]
            [] d.k = "mdf"   -> [k \in 1..d.size |->
                                   p[((k - 1) \div d.slen) * (d.hdr + d.slen + d.tail) + d.hdr + ((k - 1) % d.slen) + 1]]
            [] d.k = "rev"   -> SampleReverse(SubSeq(p, 1, d.size), d.width)

Size(c, v) == IF v = 0 THEN c.base ELSE
              LET d == c.views[v] IN IF d.k = "chain" THEN d.slen * Len(d.list) ELSE d.size

\* ---- operational semantics -------------------------------------------------
\* machine state: [fpos, pos (per view), ts (per view: true_size), err]
Ok(s) == s.err = ""
Tell(s, v) == IF v = 0 THEN s.fpos ELSE s.pos[v]

\* _translate_addr: [err, addr]
Translate(c, s, v, addr) ==
  LET d == c.views[v] IN
  CASE d.k = "off" -> [err |-> "", addr |-> d.off + addr]
    [] d.k = "rev" -> IF s.ts[v] % d.width # 0 THEN [err |-> "BadReadSize", addr |-> 0]
                      ELSE LET ta == d.size - (addr + s.ts[v]) IN
                           IF ta % d.width # 0 THEN [err |-> "BadAlign", addr |-> 0]
                           ELSE [err |-> "", addr |-> ta]
    [] OTHER -> [err |-> "", addr |-> addr]

\* substream.seek(offset, whence) on view v (v = 0: the file)
RECURSIVE DoSeek(_, _, _, _, _)
DoSeek(c, s, v, offset, whence) ==
  IF ~Ok(s) THEN s
  ELSE IF v = 0 THEN
       LET np == CASE whence = 0 -> offset [] whence = 1 -> s.fpos + offset [] OTHER -> c.flen + offset
       IN IF np < 0 THEN [s EXCEPT !.err = "ValueError"] ELSE [s EXCEPT !.fpos = np]
  ELSE LET start == CASE whence = 1 -> s.pos[v] [] whence = 2 -> Size(c, v) [] OTHER -> 0
           np == Clamp(start + offset, 0, Size(c, v))
           s1 == [s EXCEPT !.ts[v] = 0]
           tr == Translate(c, s1, v, np)
       IN IF tr.err # "" THEN [s1 EXCEPT !.err = tr.err]
          ELSE LET s2 == DoSeek(c, s1, c.views[v].par, tr.addr, 0)
               IN IF Ok(s2) THEN [s2 EXCEPT !.pos[v] = np] ELSE s2

\* result of a read: [s, data]
Fail(s, e) == [s |-> [s EXCEPT !.err = e], data |-> <<>>]

RECURSIVE DoRead(_, _, _, _), SectorPieces(_, _, _, _, _, _, _)

\* address of (sector index, offset) in the parent, or -1 for a list index out of range
SectorAddr(d, idx, off) ==
  CASE d.k = "chain" -> IF idx + 1 > Len(d.list) THEN -1 ELSE d.list[idx + 1] * d.slen + off
    [] d.k = "mdf"   -> idx * (d.hdr + d.slen + d.tail) + d.hdr + off
    [] OTHER         -> idx * d.slen + off

\* _read_sector(idx, off, n) appended to acc
ReadSector(c, s, v, idx, off, n) ==
  LET d == c.views[v] IN
  IF off + n > d.slen THEN Fail(s, "AttemptToReadBeyondBuffer")
  ELSE LET a == SectorAddr(d, idx, off) IN
       IF a < 0 THEN Fail(s, "IndexError")
       ELSE LET s1 == DoSeek(c, s, d.par, a, 0) IN
            IF ~Ok(s1) THEN [s |-> s1, data |-> <<>>] ELSE DoRead(c, s1, d.par, n)

\* the `while remaining_size > sector_length` loop and the final partial read
SectorPieces(c, s, v, idx, remaining, acc, first) ==
  LET d == c.views[v] IN
  IF ~Ok(s) THEN [s |-> s, data |-> acc]
  ELSE IF remaining > d.slen THEN
       LET r == ReadSector(c, s, v, idx, 0, d.slen)
       IN SectorPieces(c, r.s, v, idx + 1, remaining - d.slen, acc \o r.data, FALSE)
  ELSE IF remaining > 0 THEN
       LET r == ReadSector(c, s, v, idx, 0, remaining) IN [s |-> r.s, data |-> acc \o r.data]
  ELSE [s |-> s, data |-> acc]

\* SectorStream._read(size)
SectorRead(c, s, v, size) ==
  LET d == c.views[v]
      idx0 == s.pos[v] \div d.slen
      off0 == s.pos[v] % d.slen
  IN IF size <= 0 /\ ZeroReadAtChainEnd THEN [s |-> s, data |-> <<>>]
     ELSE LET n0 == IF off0 + size <= d.slen THEN size ELSE d.slen - off0
              r0 == ReadSector(c, s, v, idx0, off0, n0)
              r1 == SectorPieces(c, r0.s, v, idx0 + 1, size - n0, r0.data, TRUE)
          IN IF ~Ok(r1.s) THEN [s |-> r1.s, data |-> <<>>]
             ELSE IF Len(r1.data) # size THEN Fail(r1.s, "SectorReadError")
             ELSE r1

\* read(size) with size >= 0 on view v (v = 0: the file)
DoRead(c, s, v, size) ==
  IF ~Ok(s) THEN [s |-> s, data |-> <<>>]
  ELSE IF v = 0 THEN
       LET dta == FileRead(c, s.fpos, size) IN [s |-> [s EXCEPT !.fpos = s.fpos + Len(dta)], data |-> dta]
  ELSE LET d == c.views[v]
           eof == Size(c, v)
           t0 == IF eof > 0 \/ EmptyWindowReadsNothing THEN Min(eof - s.pos[v], size) ELSE size
           t == Max(t0, 0)
           s1 == [s EXCEPT !.ts[v] = t]
           truepos == Tell(s1, d.par)
           tr == Translate(c, s1, v, s1.pos[v])
       IN IF tr.err # "" THEN Fail(s1, tr.err)
          ELSE LET s2 == IF ReseekTest /\ tr.addr # truepos THEN DoSeek(c, s1, d.par, tr.addr, 0) ELSE s1
               IN IF ~Ok(s2) THEN [s |-> s2, data |-> <<>>]
                  ELSE LET r == CASE d.k \in {"sect", "chain", "mdf"} -> SectorRead(c, s2, v, t)
                                  [] d.k = "rev" ->
                                       LET q == DoRead(c, s2, d.par, t) IN
                                       IF ~Ok(q.s) THEN q
                                       ELSE IF Len(q.data) # t THEN Fail(q.s, "ShortReverse")
                                       ELSE [s |-> q.s, data |-> SampleReverse(q.data, d.width)]
                                  [] OTHER -> DoRead(c, s2, d.par, t)
                       IN IF ~Ok(r.s) THEN r
                          ELSE [s |-> [r.s EXCEPT !.pos[v] = s.pos[v] + t], data |-> r.data]

\* readall(): read(buffer_length) until a read returns nothing.  blen = 0 stands for the default buffer (4096 bytes,
\* larger than every view here: modelled as Size+1); a small blen makes the loop take several iterations.
RECURSIVE ReadAllLoop(_, _, _, _, _)
ReadAllLoop(c, s, v, n, acc) ==
  LET r == DoRead(c, s, v, n) IN
  IF ~Ok(r.s) THEN [s |-> r.s, data |-> <<>>]
  ELSE IF Len(r.data) < 1 THEN [s |-> r.s, data |-> acc]
  ELSE ReadAllLoop(c, r.s, v, n, acc \o r.data)
ReadAll(c, s, v) == ReadAllLoop(c, s, v, IF c.views[v].blen > 0 THEN c.views[v].blen ELSE Size(c, v) + 1, <<>>)

\* ---- operations of the state machine ------------------------------------------
TargetViews(c) == IF OpViews = "top" THEN {Len(c.views)} ELSE c.targets
Seeks(c, v) == {<<0, 0>>, <<1, 0>>, <<2, 0>>, <<3, 0>>, <<Size(c, v) + 1, 0>>,
                <<-1, 1>>, <<1, 1>>, <<2, 1>>,
                <<0, 2>>, <<-1, 2>>, <<-2, 2>>, <<1, 2>>}
               \cup {<<x, 0>> : x \in c.extra} \cup {<<x, 1>> : x \in c.extra}
ReadSizes(c, v) == {0, 1, 2, 3, Size(c, v) + 1} \cup c.extra   \* extra: sizes around sector boundaries

Ops(c) == UNION {
   {[op |-> "seek", v |-> v, a |-> x[1], w |-> x[2]] : x \in Seeks(c, v)}
   \cup {[op |-> "read", v |-> v, a |-> n, w |-> 0] : n \in ReadSizes(c, v)}
   \cup {[op |-> "tell", v |-> v, a |-> 0, w |-> 0], [op |-> "readall", v |-> v, a |-> 0, w |-> 0]}
   : v \in TargetViews(c)}

\* apply one top-level call; an exception leaves the partial assignments and clears the flag
Apply(c, s, o) ==
  LET r == CASE o.op = "seek"    -> [s |-> DoSeek(c, s, o.v, o.a, o.w), data |-> <<>>]
             [] o.op = "read"    -> DoRead(c, s, o.v, o.a)
             [] o.op = "readall" -> ReadAll(c, s, o.v)
             [] OTHER            -> [s |-> s, data |-> <<>>]
  IN [s |-> [r.s EXCEPT !.err = ""], err |-> r.s.err,
      data |-> IF r.s.err = "" THEN r.data ELSE <<>>,
      ret |-> IF o.op \in {"seek", "tell"} /\ r.s.err = "" THEN r.s.pos[o.v] ELSE -1]

Init == /\ cfg \in Configs
        /\ st = [fpos |-> 0, pos |-> [v \in 1..Len(cfg.views) |-> 0], ts |-> [v \in 1..Len(cfg.views) |-> 0], err |-> ""]
        /\ hist = <<>>

Step(o) == LET r == Apply(cfg, st, o) IN
           /\ st' = r.s
           /\ hist' = Append(IF KeepHist THEN hist ELSE <<>>, [op |-> o, before |-> st.pos[o.v], err |-> r.err, data |-> r.data, ret |-> r.ret,
                                    after |-> r.s.pos[o.v]])
           /\ UNCHANGED cfg
Next == (KeepHist => Len(hist) < Depth) /\ \E o \in Ops(cfg) : Step(o)
Spec == Init /\ [][Next]_vars

\* ---- properties (about the last operation of the history) -----------------------
Last == hist[Len(hist)]
Complete(c) == c.flen >= c.base
\* A request is acceptable when every reversed view it reaches (v itself, or below it through
\* offset/wrapper views) sees a sample-aligned position and size.
RECURSIVE SeekOK(_, _, _), ReadOK(_, _, _, _)
SeekOK(c, v, np) ==
  IF v = 0 THEN TRUE
  ELSE LET d == c.views[v]  q == Clamp(np, 0, Size(c, v)) IN
       CASE d.k = "rev" -> (d.size - q) % d.width = 0 /\ SeekOK(c, d.par, d.size - q)
         [] d.k = "off" -> SeekOK(c, d.par, d.off + q)
         [] OTHER       -> SeekOK(c, d.par, q)
ReadOK(c, v, p, n) ==
  IF v = 0 THEN TRUE
  ELSE LET d == c.views[v]  sz == Size(c, v)  t == Max(0, Min(n, sz - p)) IN
       CASE d.k = "rev" -> t % d.width = 0 /\ (sz - p) % d.width = 0 /\ ReadOK(c, d.par, sz - (p + t), t)
         [] d.k = "off" -> ReadOK(c, d.par, d.off + p, t)
         [] d.k = "wrap" -> ReadOK(c, d.par, p, t)
         [] OTHER       -> TRUE          \* sector views are never configured above a reversed view

ReadReturnsLogicalSlice ==
  (hist # <<>> /\ Complete(cfg) /\ Last.op.op = "read") =>
     LET v == Last.op.v   p == Last.before   n == Last.op.a   sz == Size(cfg, v) IN
     IF ReadOK(cfg, v, p, n)
       THEN /\ Last.err = ""
            /\ Last.data = SubSeq(Logical(cfg, v), p + 1, Min(p + n, sz))
       ELSE Last.err \in {"BadReadSize", "BadAlign"} /\ Last.after = p

PosAdvancesByLen ==
  (hist # <<>> /\ Complete(cfg) /\ Last.op.op \in {"read", "readall"} /\ Last.err = "") =>
     Last.after = Last.before + Len(Last.data)

ReadAllReturnsRest ==
  (hist # <<>> /\ Complete(cfg) /\ Last.op.op = "readall"
      /\ ReadOK(cfg, Last.op.v, Last.before, Size(cfg, Last.op.v) + 1)) =>
     /\ Last.err = ""
     /\ Last.data = SubSeq(Logical(cfg, Last.op.v), Last.before + 1, Size(cfg, Last.op.v))

SeekClamps ==
  (hist # <<>> /\ Last.op.op = "seek") =>
     LET v == Last.op.v  sz == Size(cfg, v)
         start == CASE Last.op.w = 1 -> Last.before [] Last.op.w = 2 -> sz [] OTHER -> 0
         want == Clamp(start + Last.op.a, 0, sz)
     IN IF SeekOK(cfg, v, want)
          THEN Last.err = "" /\ Last.after = want /\ Last.ret = want
          ELSE Last.err = "BadAlign" /\ Last.after = Last.before

TellIsPosition == (hist # <<>> /\ Last.op.op = "tell") => Last.ret = Last.before /\ Last.after = Last.before

PosInRange == \A v \in 1..Len(cfg.views) : st.pos[v] >= 0 /\ st.pos[v] <= Size(cfg, v)

\* truncated file: whatever a read returns is the logical slice (never other bytes), else it fails / comes short
ShortFileGivesPrefix ==
  (hist # <<>> /\ ~Complete(cfg) /\ Last.op.op = "read" /\ Last.err = "") =>
     LET v == Last.op.v  p == Last.before IN
     \A k \in 1..Len(Last.data) : p + k <= Size(cfg, v) /\ Last.data[k] = Logical(cfg, v)[p + k]

Emit == (EmitCases /\ Len(hist) = Depth) =>
          PrintT(<<"CASE", ToJson([cfg |-> cfg, hist |-> hist,
                                   logical |-> [v \in 1..Len(cfg.views) |-> Logical(cfg, v)]])>>)
=============================================================================
