------------------------------- MODULE Table -------------------------------
(***************************************************************************)
(* What `ls` prints for a directory (info.py InfoTable.print_table): one   *)
(* line per child, cells padded to a common column width, under a header   *)
(* line and a divider.  The names in the first column are what a user      *)
(* types back (C10), so the layout must let every name be read off the     *)
(* line again.                                                             *)
(*                                                                         *)
(* One action per loop iteration: Measure = one row of the width pass      *)
(* (rows first, the header last, as the code does), PrintLine = one line   *)
(* of the output pass.  Cells are sequences of characters.  The width of a *)
(* column is the larger of the minimum column width and its longest cell.  *)
(***************************************************************************)
EXTENDS Integers, Sequences, FiniteSets, TLC, Json

CONSTANTS Cells,         \* set of cell texts (sequences of characters)
          MaxRows, NCols,
          MinWidths,     \* set of minimum column widths tried
          EmitCases

VARIABLES rows, minw, widths, pc, k, lines
vars == <<rows, minw, widths, pc, k, lines>>

Header == [c \in 1..NCols |-> IF c = 1 THEN <<"I", "t", "e", "m">> ELSE <<"T", "y">>]
Max2(a, b) == IF a > b THEN a ELSE b
Pad(cell, w) == cell \o [j \in 1..(w - Len(cell)) |-> " "]                  \* str.ljust
RECURSIVE Join(_)
Join(cols) == IF Len(cols) = 1 THEN cols[1] ELSE cols[1] \o <<" ">> \o Join(Tail(cols))
RECURSIVE Sum(_)
Sum(sq) == IF sq = <<>> THEN 0 ELSE sq[1] + Sum(Tail(sq))

Init == /\ rows \in UNION {[1..n -> [1..NCols -> Cells]] : n \in 0..MaxRows}
        /\ minw \in MinWidths /\ widths = [c \in 1..NCols |-> 0] /\ pc = "measure" /\ k = 1 /\ lines = <<>>

\* width pass over rows + [header]; an empty table prints a fixed text instead
All == rows \o <<Header>>
Measure ==
  /\ pc = "measure"
  /\ IF rows = <<>> THEN /\ lines' = <<<<"(", "*", "e", "m", "p", "t", "y", "*", ")">>>> /\ pc' = "done" /\ UNCHANGED <<widths, k>>
     ELSE IF k > Len(All) THEN /\ pc' = "print" /\ k' = 0 /\ UNCHANGED <<widths, lines>>
     ELSE /\ widths' = [c \in 1..NCols |-> Max2(widths[c], Max2(minw, Len(All[k][c])))]
          /\ k' = k + 1 /\ UNCHANGED <<pc, lines>>
  /\ UNCHANGED <<rows, minw>>

Line(r) == Join([c \in 1..NCols |-> Pad(r[c], widths[c])])
Total == Sum(widths) + NCols - 1
\* output pass: k = 0 header, 1 divider, 2.. rows
PrintLine ==
  /\ pc = "print"
  /\ IF k > Len(rows) + 1 THEN pc' = "done" /\ UNCHANGED <<k, lines>>
     ELSE /\ lines' = Append(lines, IF k = 0 THEN Line(Header) ELSE IF k = 1 THEN [j \in 1..Total |-> "-"] ELSE Line(rows[k - 1]))
          /\ k' = k + 1 /\ UNCHANGED pc
  /\ UNCHANGED <<rows, minw, widths>>

Next == Measure \/ PrintLine
Spec == Init /\ [][Next]_vars /\ WF_vars(Next)

-----------------------------------------------------------------------------
Done == pc = "done"
Terminates == <>Done
WidthOf(c) == LET ws == {minw} \cup {Len(All[j][c]) : j \in 1..Len(All)} IN CHOOSE w \in ws : \A x \in ws : x <= w
\* the measured widths are the declared ones
WidthsAreMaxima == (pc # "measure" /\ rows # <<>>) => \A c \in 1..NCols : widths[c] = WidthOf(c)
\* one line per child, in order, all of one length; column c starts at the same offset in every line
Offset(c) == Sum([j \in 1..(c - 1) |-> widths[j] + 1])
Aligned ==
  (Done /\ rows # <<>>) =>
     /\ Len(lines) = Len(rows) + 2
     /\ \A j \in 1..Len(lines) : Len(lines[j]) = Total
     /\ \A r \in 1..Len(rows) : \A c \in 1..NCols :
          /\ SubSeq(lines[r + 2], Offset(c) + 1, Offset(c) + Len(rows[r][c])) = rows[r][c]            \* the cell, unabridged
          /\ \A j \in (Offset(c) + Len(rows[r][c]) + 1)..(Offset(c) + widths[c]) : lines[r + 2][j] = " "   \* then padding only
EmptySaysSo == (Done /\ rows = <<>>) => Len(lines) = 1
TypeOK == pc \in {"measure", "print", "done"}

Emit == (EmitCases /\ Done) => PrintT(<<"CASE", ToJson([rows |-> rows, minw |-> minw, lines |-> lines])>>)
=============================================================================
