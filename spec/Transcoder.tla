----------------------------- MODULE Transcoder -----------------------------
(***************************************************************************)
(* transcoder.py: get_buffer_sizes, decode_frame (per-stream block read,   *)
(* resize_buffer, de-interleave), the swap steps built by make_transcoder  *)
(* (per-stream flags vs per-channel list), pad_channels, the stop          *)
(* conditions of PipelineTranscoder.__next__, PassthroughTranscoder.       *)
(*                                                                         *)
(* Samples are symbolic: [s, c, f] = stream, channel, frame; each value    *)
(* carries the byte order it currently has IN MEMORY ("L"/"B"); a byteswap *)
(* flips it; the output is correct when every value is "L".                *)
(* "PAD" values are produced by pad_channels (their numeric value - a      *)
(* linear ramp - is outside the property).                                 *)
(*                                                                         *)
(* One action = one call of __next__ (one block).                          *)
(* Named deviation: SwapFlagsPerChannel (D7) TRUE = the per-stream swap    *)
(* flags are expanded to one flag per channel.                             *)
(***************************************************************************)
EXTENDS Integers, Sequences, FiniteSets, TLC, Json

CONSTANTS MaxStreams, MaxCh, MaxFrames,
          BlockSizes,        \* set of block sizes in frames
          SysOrders,         \* set of host byte orders to consider
          SwapFlagsPerChannel,
          EmitCases

VARIABLES cfg,     \* [streams |-> <<[nch, order, frames, partial]>>, B |-> block frames, sys |-> host order]
          pos,     \* frames consumed per stream
          out,     \* sequence of output frames; a frame is a sequence of values
          state    \* "run" | "done"
vars == <<cfg, pos, out, state>>

Min(a, b) == IF a < b THEN a ELSE b
Max(a, b) == IF a > b THEN a ELSE b
Flip(o) == IF o = "L" THEN "B" ELSE "L"

StreamSpecs == [nch : 1..MaxCh, order : {"L", "B"}, frames : 0..MaxFrames, partial : BOOLEAN]
RECURSIVE SumCh(_, _)
SumCh(ss, k) == IF k = 0 THEN 0 ELSE SumCh(ss, k - 1) + ss[k].nch
TotalCh(ss) == SumCh(ss, Len(ss))

\* PassthroughTranscoder is chosen for one stream already in the destination encoding (little endian)
Passthrough(c) == Len(c.streams) = 1 /\ c.streams[1].order = "L"

\* ---- one block --------------------------------------------------------------------------
\* frames stream i delivers in this block (whole frames only: a trailing partial frame is cut by resize_buffer)
Got(c, p, i) == Min(c.B, c.streams[i].frames - p[i])

\* channels after decode_frame: one sequence of values per channel, in stream order then channel order
ChannelsOf(c, p) ==
  LET ss == c.streams
      RECURSIVE Build(_)
      Build(i) == IF i > Len(ss) THEN <<>>
                  ELSE [ch \in 1..ss[i].nch |->
                          [k \in 1..Got(c, p, i) |-> [s |-> i, c |-> ch, f |-> p[i] + k, mem |-> ss[i].order, pad |-> FALSE]]]
                       \o Build(i + 1)
  IN Build(1)

SwapAll(chs) == [k \in 1..Len(chs) |-> [j \in 1..Len(chs[k]) |-> [chs[k][j] EXCEPT !.mem = Flip(@)]]]

\* per-channel flags (intended) or per-stream flags zipped with the channel list (as once implemented:
\* zip() truncates to the shorter list and misaligns the flags)
StreamFlags(c) == [i \in 1..Len(c.streams) |-> c.streams[i].order # c.sys]
RECURSIVE Expand(_, _)
Expand(c, i) == IF i > Len(c.streams) THEN <<>>
                ELSE [k \in 1..c.streams[i].nch |-> StreamFlags(c)[i]] \o Expand(c, i + 1)
SwapMulti(c, chs) ==
  LET flags == IF SwapFlagsPerChannel THEN Expand(c, 1) ELSE StreamFlags(c)
      n == Min(Len(chs), Len(flags))
  IN [k \in 1..n |-> IF flags[k] THEN [j \in 1..Len(chs[k]) |-> [chs[k][j] EXCEPT !.mem = Flip(@)]] ELSE chs[k]]

InputSwap(c, chs) ==
  LET fl == StreamFlags(c)
      anyS == \E i \in 1..Len(fl) : fl[i]
      allS == \A i \in 1..Len(fl) : fl[i]
  IN IF ~anyS THEN chs ELSE IF allS THEN SwapAll(chs) ELSE SwapMulti(c, chs)
OutputSwap(c, chs) == IF c.sys # "L" THEN SwapAll(chs) ELSE chs

PadValue == [s |-> 0, c |-> 0, f |-> 0, mem |-> "L", pad |-> TRUE]
Pad(chs) == LET n == IF Len(chs) = 0 THEN 0 ELSE CHOOSE m \in {Len(chs[k]) : k \in 1..Len(chs)} : \A k \in 1..Len(chs) : Len(chs[k]) <= m
            IN [k \in 1..Len(chs) |-> [j \in 1..n |-> IF j <= Len(chs[k]) THEN chs[k][j] ELSE PadValue]]
\* np.vstack(channels).reshape(-1, order='F'): frame j = <<ch1[j], ch2[j], ...>>
Interleave(chs) == IF Len(chs) = 0 THEN <<>> ELSE [j \in 1..Len(chs[1]) |-> [k \in 1..Len(chs) |-> chs[k][j]]]

Init == /\ cfg \in {c \in [streams : UNION {[1..n -> StreamSpecs] : n \in 1..MaxStreams}, B : BlockSizes, sys : SysOrders] :
                      TotalCh(c.streams) <= MaxCh}
        /\ pos = [i \in 1..Len(cfg.streams) |-> 0]
        /\ out = <<>> /\ state = "run"

Block ==
  /\ state = "run"
  /\ IF Passthrough(cfg)
       THEN LET g == Got(cfg, pos, 1) IN
            IF g <= 0 THEN state' = "done" /\ UNCHANGED <<pos, out>>
            ELSE /\ out' = out \o Interleave(ChannelsOf(cfg, pos))
                 /\ pos' = [pos EXCEPT ![1] = @ + g] /\ UNCHANGED state
       ELSE IF \E i \in 1..Len(cfg.streams) : Got(cfg, pos, i) <= 0
              THEN /\ state' = "done" /\ out' = out
                   \* the streams were read before the emptiness test: their cursors moved
                   /\ pos' = [i \in 1..Len(cfg.streams) |-> pos[i] + Max(0, Got(cfg, pos, i))]
              ELSE /\ out' = out \o Interleave(Pad(OutputSwap(cfg, InputSwap(cfg, ChannelsOf(cfg, pos)))))
                   /\ pos' = [i \in 1..Len(cfg.streams) |-> pos[i] + Got(cfg, pos, i)]
                   /\ UNCHANGED state
  /\ UNCHANGED cfg
Next == Block
Spec == Init /\ [][Next]_vars /\ WF_vars(Next)

\* ---- the clauses of C12 ---------------------------------------------------------------------
Shortest == LET fs == {cfg.streams[i].frames : i \in 1..Len(cfg.streams)} IN CHOOSE m \in fs : \A x \in fs : m <= x
Longest == LET fs == {cfg.streams[i].frames : i \in 1..Len(cfg.streams)} IN CHOOSE m \in fs : \A x \in fs : m >= x
\* channel number k (1-based, over all streams) -> <<stream, channel>>
RECURSIVE ChanMap(_, _)
ChanMap(ss, i) == IF i > Len(ss) THEN <<>> ELSE [ch \in 1..ss[i].nch |-> <<i, ch>>] \o ChanMap(ss, i + 1)

ChannelOrderAndValues ==
  state = "done" =>
     \A j \in 1..Len(out) :
        /\ Len(out[j]) = TotalCh(cfg.streams)                       \* one channel per source channel
        /\ j <= Shortest =>
             \A k \in 1..Len(out[j]) :
                LET sc == ChanMap(cfg.streams, 1)[k]  v == out[j][k] IN
                /\ ~v.pad /\ v.s = sc[1] /\ v.c = sc[2] /\ v.f = j  \* same-numbered channel, same frame
                /\ v.mem = "L"                                      \* little-endian output
LengthBounds == state = "done" => Len(out) >= Shortest /\ Len(out) <= Longest
ExactWhenEqual == (state = "done" /\ Shortest = Longest) => Len(out) = Shortest
Terminates == <>(state = "done")

Emit == (EmitCases /\ state = "done") =>
   PrintT(<<"CASE", ToJson([cfg |-> cfg, nframes |-> Len(out), shortest |-> Shortest, passthrough |-> Passthrough(cfg),
                            out |-> [j \in 1..Len(out) |-> [k \in 1..Len(out[j]) |->
                                        IF out[j][k].pad THEN <<0, 0, 0>> ELSE <<out[j][k].s, out[j][k].c, out[j][k].f>>]]])>>)
=============================================================================
