-------------------------------- MODULE Wav --------------------------------
(***************************************************************************)
(* RIFF/WAVE files as written by formats/wav.py + generalized/wav.py:      *)
(* nested length prefixes (Prefixed), fmt fields derived by Rebuild, smpl  *)
(* chunk with a counted loop table, streamed data chunk.                   *)
(*                                                                         *)
(* Layout(p) is the arithmetic of the writer for parameters p;             *)
(* Failed(rec) is the set of names of the clauses of the property (C04)    *)
(* that a PARSED file record violates; WellFormed(rec) == Failed(rec) = {}.*)
(* The design check shows Layout(p) is well formed for all small p and     *)
(* that each clause can fail (mutated layouts).  WavTrace.tla applies      *)
(* Failed() to records extracted from real files.                          *)
(***************************************************************************)
EXTENDS Integers, Sequences, FiniteSets, TLC

CONSTANTS MaxCh, RateSet, MaxLoops, MaxFrames

VARIABLE p      \* parameters of one file: [nch, rate, smpl, loops, frames]

ChunkSeq(q) == <<[id |-> "fmt ", size |-> 16]>>
               \o (IF q.smpl THEN <<[id |-> "smpl", size |-> 36 + 24 * q.loops]>> ELSE <<>>)
               \o <<[id |-> "data", size |-> q.frames * q.nch * 2]>>
RECURSIVE SumChunks(_, _)
SumChunks(cs, k) == IF k = 0 THEN 0 ELSE SumChunks(cs, k - 1) + 8 + cs[k].size
RECURSIVE WithOffsets(_, _, _)
WithOffsets(cs, k, off) == IF k > Len(cs) THEN <<>>
                           ELSE <<[id |-> cs[k].id, size |-> cs[k].size, off |-> off, avail |-> cs[k].size]>>
                                \o WithOffsets(cs, k + 1, off + 8 + cs[k].size)

Layout(q) ==
  LET cs == ChunkSeq(q)
      body == 4 + SumChunks(cs, Len(cs))
  IN [file_len |-> 8 + body, riff_size |-> body, form |-> "WAVE", trailing |-> 0,
      chunks |-> WithOffsets(cs, 1, 12),
      fmt |-> [size |-> 16, audio_format |-> 1, channels |-> q.nch, rate |-> q.rate,
               byte_rate |-> q.rate * q.nch * 2, block_align |-> q.nch * 2, bits |-> 16],
      has_smpl |-> q.smpl,
      smpl |-> [size |-> 36 + 24 * q.loops, loop_cnt |-> q.loops, sampler_data |-> 0],
      data_len |-> q.frames * q.nch * 2]

Ids(rec) == [k \in 1..Len(rec.chunks) |-> rec.chunks[k].id]
RECURSIVE SumRec(_, _)
SumRec(rec, k) == IF k = 0 THEN 0 ELSE SumRec(rec, k - 1) + 8 + rec.chunks[k].size

Failed(rec) ==
  (IF rec.riff_size = rec.file_len - 8 THEN {} ELSE {"riff_size"})
  \cup (IF rec.form = "WAVE" THEN {} ELSE {"form"})
  \cup (IF Ids(rec) \in {<<"fmt ", "data">>, <<"fmt ", "smpl", "data">>} THEN {} ELSE {"chunk_order"})
  \cup (IF 12 + SumRec(rec, Len(rec.chunks)) = rec.file_len /\ rec.trailing = 0
           /\ \A k \in 1..Len(rec.chunks) : rec.chunks[k].avail = rec.chunks[k].size THEN {} ELSE {"sizes_add_up"})
  \cup (IF rec.fmt.size = 16 /\ rec.fmt.audio_format = 1 THEN {} ELSE {"fmt_pcm16"})
  \cup (IF rec.fmt.bits = 16 THEN {} ELSE {"bits"})
  \cup (IF rec.fmt.block_align = rec.fmt.channels * 2 THEN {} ELSE {"block_align"})
  \cup (IF rec.fmt.byte_rate = rec.fmt.rate * rec.fmt.block_align THEN {} ELSE {"byte_rate"})
  \cup (IF rec.fmt.channels >= 1 /\ rec.fmt.block_align > 0 /\ rec.data_len % (rec.fmt.channels * 2) = 0 THEN {} ELSE {"whole_frames"})
  \cup (IF rec.has_smpl = (\E k \in 1..Len(rec.chunks) : rec.chunks[k].id = "smpl")
           /\ (rec.has_smpl => rec.smpl.size = 36 + 24 * rec.smpl.loop_cnt + rec.smpl.sampler_data) THEN {} ELSE {"smpl_size"})
WellFormed(rec) == Failed(rec) = {}

Params == [nch : 1..MaxCh, rate : RateSet, smpl : BOOLEAN, loops : 0..MaxLoops, frames : 0..MaxFrames]
Init == p \in Params
Next == UNCHANGED p

LayoutIsWellFormed == WellFormed(Layout(p))
\* each clause is falsifiable: a layout with one number off is rejected for that clause
ClausesBite ==
  LET r == Layout(p) IN
  /\ "riff_size" \in Failed([r EXCEPT !.riff_size = @ + 1])
  /\ "block_align" \in Failed([r EXCEPT !.fmt.block_align = @ + 2])
  /\ "byte_rate" \in Failed([r EXCEPT !.fmt.byte_rate = @ + 1])
  /\ "whole_frames" \in Failed([r EXCEPT !.data_len = @ + 1])
  /\ "sizes_add_up" \in Failed([r EXCEPT !.file_len = @ + 1, !.riff_size = @ + 1])
  /\ (p.smpl => "smpl_size" \in Failed([r EXCEPT !.smpl.loop_cnt = @ + 1]))
  /\ "chunk_order" \in Failed([r EXCEPT !.chunks = <<r.chunks[Len(r.chunks)]>> \o SubSeq(r.chunks, 1, Len(r.chunks) - 1)])
=============================================================================
