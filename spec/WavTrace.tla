------------------------------ MODULE WavTrace ------------------------------
(***************************************************************************)
(* TraceLog validation for C04: every line of the ndjson file is the record   *)
(* an independent RIFF walker extracted from one file the tool reported as *)
(* exported (plus what the case predicted: channels, rate).  A line is     *)
(* accepted iff Wav!Failed(rec) = {} and the cross-checks hold.  The run   *)
(* consumes the whole batch; rejected lines are reported with the names of *)
(* the failing clauses; acceptance by POSTCONDITION.                       *)
(***************************************************************************)
EXTENDS Wav, Json, IOUtils

TraceLog == ndJsonDeserialize(IOEnv.TRACE_FILE)

VARIABLES l, rejected
tvars == <<p, l, rejected>>

Cross(rec) == (IF rec.want_channels = 0 \/ rec.fmt.channels = rec.want_channels THEN {} ELSE {"channels_as_case"})
              \cup (IF rec.want_rate = 0 \/ rec.fmt.rate = rec.want_rate THEN {} ELSE {"rate_as_case"})

TraceInit == /\ p = [nch |-> 1, rate |-> 1, smpl |-> FALSE, loops |-> 0, frames |-> 0]
             /\ l = 1 /\ rejected = <<>>
TraceNext == /\ l <= Len(TraceLog)
             /\ LET bad == Failed(TraceLog[l]) \cup Cross(TraceLog[l]) IN
                rejected' = IF bad = {} THEN rejected ELSE Append(rejected, [line |-> l, id |-> TraceLog[l].id, clauses |-> bad])
             /\ l' = l + 1 /\ UNCHANGED p
TraceSpec == TraceInit /\ [][TraceNext]_tvars

Report == (l = Len(TraceLog) + 1) => PrintT(<<"CASE", ToJson([lines |-> Len(TraceLog), rejected |-> rejected])>>)
TraceAccepted == TLCGet("stats").diameter = Len(TraceLog) + 1
=============================================================================
