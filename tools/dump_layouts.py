#!/venv/bin/python
"""Evaluates spec/Headers.tla with TLC (checks its ASSUMEs) and writes the layout tables the writers use."""
import json, os, sys
ROOT = os.path.dirname(os.path.dirname(os.path.abspath(__file__)))
sys.path.insert(0, ROOT)
from harness import tlc
r = tlc.run("Headers", tlc.cfg_text(), workers=1, timeout_s=120)
if not r.ok or len(r.cases) != 1:
    print(r.output[-3000:]); sys.exit(2)
with open(os.path.join(ROOT, "harness", "writers", "layouts.json"), "w") as fh:
    json.dump(r.cases[0], fh, indent=1, sort_keys=True)
print("layouts written:", len(r.cases[0]["layouts"]), "records")
