"""Line-ending preserving text replacement for /repo files: edit_repo.py <file> then a python snippet is not needed;
use as a module: from tools.edit_repo import sub"""
import io


def sub(path, old, new, count=1):
    with open(path, "r", newline="") as fh:
        s = fh.read()
    crlf = "\r\n" in s
    if crlf:
        old = old.replace("\n", "\r\n")
        new = new.replace("\n", "\r\n")
    if s.count(old) < 1:
        raise SystemExit(f"pattern not found in {path}: {old[:60]!r}")
    s = s.replace(old, new, count)
    with open(path, "w", newline="") as fh:
        fh.write(s)
