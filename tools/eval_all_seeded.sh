#!/bin/sh
# re-evaluates every seeded change against the check of the property it breaks (quick tier); rewrites seeded/*/results.json and MATRIX.md
# usage: tools/eval_all_seeded.sh [lanes]   - each lane works in its own scratch worktree of /repo (removed afterwards), /repo is not touched
cd "$(dirname "$0")/.."
LANES=${1:-3}
BASE=$(mktemp -d /tmp/evalwt.XXXXXX)
ids=$(for d in seeded/*/; do [ -f $d/patch.diff ] && basename $d; done)
lane() {
  k=$1
  W=$BASE/lane$k
  git -C /repo worktree add -q --detach $W HEAD || exit 1
  cp /repo/smpl_extract/filters/*.so $W/smpl_extract/filters/ 2>/dev/null
  i=0
  for id in $ids; do
    i=$((i + 1))
    [ $((i % LANES)) -eq $k ] || continue
    prop=$(echo $id | cut -d- -f1)
    rm -f seeded/$id/results.json
    extra=""
    case $id in C03-b) extra="C06";; C07-b|C02-b) extra="C02 C07";; C14-b) extra="C02";; C05-b|C05-d) extra="C06";; C07-c) extra="C01";; C05-c|C20-c|C06-f|C03-g) extra="C16";; C01-h) extra="C18";; esac
    echo "$id: $(./tools/eval_seeded.py $id --in $W $prop $extra 2>&1 | tail -3 | cut -c1-150 | tr '\n' '|')"
  done
  git -C /repo worktree remove --force $W
}
k=0
while [ $k -lt $LANES ]; do lane $k & k=$((k + 1)); done
wait
git -C /repo worktree prune
rmdir $BASE 2>/dev/null
/venv/bin/python tools/seeded_meta.py
