#!/bin/sh
# re-evaluates every seeded change against the check of the property it breaks (quick tier); rewrites seeded/*/results.json and MATRIX.md
cd "$(dirname "$0")/.."
for d in seeded/*/; do
  id=$(basename $d)
  [ -f $d/patch.diff ] || continue
  prop=$(echo $id | cut -d- -f1)
  rm -f $d/results.json
  extra=""
  case $id in C03-b) extra="C06";; C07-b|C02-b) extra="C02 C07";; C14-b) extra="C02";; C05-b) extra="C06";; C07-c) extra="C01";; esac
  ./tools/eval_seeded.py $id $prop $extra 2>&1 | tail -3 | cut -c1-160
done
/venv/bin/python tools/seeded_meta.py
