#!/venv/bin/python
"""Apply a seeded breaking change (seeded/<id>/patch.diff) to /repo, run the named checks, undo the change.
usage: tools/eval_seeded.py <seeded-id> [--tier quick|thorough] [--in DIR] CNN [CNN ...]      (results appended to seeded/<id>/results.json)
With --in DIR the change is applied to the scratch worktree DIR (which must hold the compiled filters) and the checks run
with VERIF_REPO=DIR, so /repo is not touched."""
import json, os, subprocess, sys, time
ROOT = os.path.dirname(os.path.dirname(os.path.abspath(__file__)))


def sh(cmd, **kw):
    return subprocess.run(cmd, shell=True, text=True, capture_output=True, **kw)


def main():
    args = sys.argv[1:]
    sid = args.pop(0)
    tier = "quick"
    if args and args[0] == "--tier":
        args.pop(0)
        tier = args.pop(0)
    repo = "/repo"
    if args and args[0] == "--in":
        args.pop(0)
        repo = args.pop(0)
    d = os.path.join(ROOT, "seeded", sid)
    patch = os.path.join(d, "patch.diff")
    st = sh(f"git -C {repo} status --porcelain --untracked-files=no")
    if st.stdout.strip():
        sys.exit(f"refusing: {repo} has uncommitted changes to tracked files")
    r = sh(f"git -C {repo} apply {patch}")
    if r.returncode:
        sys.exit("patch does not apply: " + r.stderr)
    out = {}
    try:
        t = sh(f"cd {repo} && env -u SMPL_EXTRACT_VERIF /venv/bin/python -m pytest -q -p no:cacheprovider 2>&1 | tail -1")
        out["baseline_tests"] = t.stdout.strip()
        for c in args:
            t0 = time.time()
            r = sh(f"cd {ROOT} && VERIF_REPO={repo} ./check {c} --tier {tier}")
            lines = [l for l in r.stdout.splitlines() if not l.startswith('<<"CASE"')]
            viol = [l for l in lines if l.startswith("VIOLATION")]
            first = next((l.strip() for l in lines if l.strip().startswith("what:")), "")
            out[c] = {"rc": r.returncode, "violations": len(viol), "first": first[:300], "wall_s": round(time.time() - t0, 1), "tier": tier}
            print(c, "rc", r.returncode, "violations", len(viol), first[:160])
    finally:
        sh(f"git -C {repo} checkout -- .")
        sh(f"rm -rf {ROOT}/replays/*")
    p = os.path.join(d, "results.json")
    old = json.load(open(p)) if os.path.exists(p) else {}
    old.update(out)
    json.dump(old, open(p, "w"), indent=1)


if __name__ == "__main__":
    main()
