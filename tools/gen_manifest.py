#!/venv/bin/python
"""Regenerates MANIFEST.json from the table below (single source of truth) and validates it."""
import json, os, subprocess, sys
ROOT = os.path.dirname(os.path.dirname(os.path.abspath(__file__)))
sys.path.insert(0, ROOT)
from tools.manifest_table import CHECKS, NOT_YET, HOOK_COMMITS

def main():
    props = [json.loads(l)["id"] for l in open(os.path.join(ROOT, "properties.jsonl"))]
    checks = []
    for pid in props:
        if pid not in CHECKS:
            continue
        c = CHECKS[pid]
        checks.append({
            "property_id": pid,
            "quick_cmd": f"./check {pid} --tier quick",
            "thorough_cmd": f"./check {pid} --tier thorough",
            "evidence_file": f"/verif/evidence/{pid}.json",
            "replay_cmd_template": f"./check {pid} --replay {{path}}",
            "engine": "tlc+replay",
            "level_claimed": {"category": "model_checking", "text": c["text"], "design_ref": c.get("ref", f"DESIGN.md section 4, {pid}")},
            "level_note": c["note"],
            "technique": c["technique"],
        })
    na = [{"property_id": p, "reason": NOT_YET.get(p, "check not built yet in this round; planned, see DESIGN.md section 8")}
          for p in props if p not in CHECKS]
    m = {
        "version": 1,
        "setup_cmd": "cd /verif && ./setup.sh",
        "hooks": {
            "guard": "SMPL_EXTRACT_VERIF",
            "enable": "environment variable SMPL_EXTRACT_VERIF=1 (set by ./check); trace file in SMPL_EXTRACT_VERIF_LOG; nothing is built, /repo is imported in place",
            "baseline_off_cmd": "cd /repo && env -u SMPL_EXTRACT_VERIF /venv/bin/python -m pytest -ra -q -p no:cacheprovider --timeout=900 --continue-on-collection-errors",
            "source_commits": HOOK_COMMITS,
            "add_only": True,
        },
        "engines": [{
            "name": "tlc+replay", "path": "/verif/check",
            "serves_properties": [c["property_id"] for c in checks],
            "kind_free_text": "explicit TLA+ specifications (/verif/spec) model-checked with TLC; TLC-enumerated cases and behaviours replayed into the real code, and traces recorded from the real code validated by TLC trace specifications",
        }],
        "checks": checks,
        "not_applicable": na,
        "notes": "Known findings: /verif/known_findings.json. Design and catch matrix: /verif/DESIGN.md. Seeded breaking changes: /verif/seeded/.",
    }
    with open(os.path.join(ROOT, "MANIFEST.json"), "w") as fh:
        json.dump(m, fh, indent=1)
    r = subprocess.run(["python3-vt", "-c", """
import json, jsonschema, sys
m = json.load(open('/verif/MANIFEST.json')); s = json.load(open('/root/.vp/MANIFEST.schema.json'))
jsonschema.validate(m, s); print('MANIFEST ok:', len(m['checks']), 'checks,', len(m.get('not_applicable', [])), 'n/a')
"""])
    sys.exit(r.returncode)

if __name__ == "__main__":
    main()
