#!/bin/sh
# tools/intake_seeded.sh <worktree-prop e.g. C07> <seeded-id e.g. C07-a> : verify an agent's change in its scratch worktree and file it
set -e
P=$1; ID=$2
W=${MUTBASE:-/tmp/mut}/$P
cd $W
test -f _mutation/patch.diff
git checkout -q -- smpl_extract 2>/dev/null || true
git apply _mutation/patch.diff
T=$(env -u SMPL_EXTRACT_VERIF /venv/bin/python -m pytest -q -p no:cacheprovider 2>&1 | tail -1)
set +e
env -u SMPL_EXTRACT_VERIF timeout 300 /venv/bin/python _mutation/demo.py > /tmp/demo_with.log 2>&1; RC_WITH=$?
git checkout -q -- smpl_extract
env -u SMPL_EXTRACT_VERIF timeout 300 /venv/bin/python _mutation/demo.py > /tmp/demo_without.log 2>&1; RC_WITHOUT=$?
set -e
echo "tests: $T | demo with change rc=$RC_WITH | without rc=$RC_WITHOUT"
if [ "$RC_WITH" = "0" ] || [ "$RC_WITHOUT" != "0" ]; then echo "NOT CONFIRMED"; exit 1; fi
case "$T" in *"62 passed"*) ;; *) echo "TESTS DO NOT PASS"; exit 1;; esac
D=/verif/seeded/$ID
mkdir -p $D
cp _mutation/patch.diff _mutation/demo.py $D/
cp _mutation/notes.md $D/notes.md 2>/dev/null || true
tail -5 /tmp/demo_with.log > $D/demo_output_with_change.txt
echo "filed $D"
