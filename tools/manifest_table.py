HOOK_COMMITS = []
NOT_YET = {}
CHECKS = {
 "C07": dict(
   text="TLC checks exactness (every well-formed chain resolves to exactly its sectors, decoded links acyclic) as invariants over ALL raw word tables of N entries (AKAI N<=4 quick, N<=6 thorough; Roland 3-4 usable heads) and termination of the three table-walking loops as a liveness property of a step-wise specification; every enumerated table is then replayed into the real decoders, get_path and FileStream and compared with the specification's prediction for every start sector, also embedded (shifted and packed) into tables of the real sizes 11386 / 65536.",
   note="Trusted: the TLA+ transcription's definition of 'well-formed chain' matches the property text; TLC; the watchdog (2 s per call) as the observation of non-termination. Real-size coverage is by embedding small tables, not by enumeration.",
   technique="TLC exhaustive model checking of AllocTable.tla / liveness of AllocWalk.tla + replay of every enumerated table into the implementation"),
}
