HOOK_COMMITS = []
NOT_YET = {}
CHECKS = {
 "C07": dict(
   text="TLC checks exactness (every well-formed chain resolves to exactly its sectors, decoded links acyclic) as invariants over ALL raw word tables of N entries (AKAI N<=4 quick, N<=6 thorough; Roland 3-4 usable heads) and termination of the three table-walking loops as a liveness property of a step-wise specification; every enumerated table is then replayed into the real decoders, get_path and FileStream and compared with the specification's prediction for every start sector, also embedded (shifted and packed) into tables of the real sizes 11386 / 65536.",
   note="Trusted: the TLA+ transcription's definition of 'well-formed chain' matches the property text; TLC; the watchdog (2 s per call) as the observation of non-termination. Real-size coverage is by embedding small tables, not by enumeration.",
   technique="TLC exhaustive model checking of AllocTable.tla / liveness of AllocWalk.tla + replay of every enumerated table into the implementation"),
 "C08": dict(
   text="TLC checks ReadReturnsLogicalSlice, PosAdvancesByLen, ReadAllReturnsRest, SeekClamps, TellIsPosition, PosInRange (and the truncated-file variant) on the COMPLETE state graph - every seek/read/tell/readall history of any length - of 27 tiny view configurations (offset window, sector stream, sector chain, scaled raw-sector view, reversed view, and the nestings the tool builds, up to depth 4); behaviours (exhaustive depth 2, simulated depth 8-40, medium configurations with reads spanning 1-3 sector boundaries) are replayed call by call into the real classes comparing bytes, positions, return values and error/no-error.",
   note="Trusted: Logical(v), the declarative meaning of a view in Streams.tla; TLC. Geometry is scaled (sector 2-16 bytes); the real 8192/9216/2048 sizes are covered end-to-end by C01/C02/C09. Assumes non-empty, in-range, aligned configurations as the property states.",
   technique="TLC exhaustive model checking of Streams.tla (unbounded history) + replay of TLC-generated behaviours into the implementation"),
 "C01": dict(
   text="TLC checks DecodeOfEncodeIsChain (the SAT decoder of AllocTable.tla returns every directory and file chain of every encoded layout), ExtentsTileWindow, OneWavPerSampleOrPair and LayoutSane on EVERY image of a tiny geometry (sector 4, header 2): all placements and orderings of all chains, all word counts, all marker pairs. At the real constants (8192/140/11386) TLC generates images over shape x allocation-class x fill-class x marker x rate x type x directory-style x L/R-pair; an independent writer serialises them, the real export runs, and the set of files, the Exported lines, rate, channel count and per-channel PCM are compared with the image bytes at the extents the specification predicts.",
   note="Trusted: Headers.tla layouts = what the parser reads (consistency, not hardware truth); AkaiImage.tla's Expected(); the RIFF walker. Names are plain; naming is C05/C06.",
   technique="TLC exhaustive model checking of AkaiImage.tla (tiny geometry) + TLC-generated images at real constants replayed through the real export"),
}
