#!/bin/sh
# runs every check in the given tier sequentially; prints a one-line summary per property
# usage: tools/run_all.sh [tier] [CNN ...]
tier=${1:-quick}
[ $# -gt 0 ] && shift
props=${*:-C01 C02 C03 C04 C05 C06 C07 C08 C09 C10 C11 C12 C13 C14 C15 C16 C17 C18 C19 C20}
cd "$(dirname "$0")/.."
for p in $props; do
  s=$(date +%s)
  ./check $p --tier $tier > /tmp/run_all_$$_$p.log 2>&1
  rc=$?
  e=$(date +%s)
  echo "$p rc=$rc $((e-s))s $(grep -v '^<<' /tmp/run_all_$$_$p.log | tail -1 | cut -c1-200)"
done
