#!/venv/bin/python
"""Writes seeded/<id>/meta.json and seeded/MATRIX.md from the table below and each results.json."""
import json, os
ROOT = os.path.dirname(os.path.dirname(os.path.abspath(__file__)))
TABLE = {
 "C01-a": ("C01", "util/fat.py: get_path caches resolved chains in a CLASS-level dict keyed by start sector", "two partitions (allocation tables) in one process whose chains start at the same sector number and differ afterwards"),
 "C02-a": ("C02", "roland volume_entry.py: np.unique dropped when collecting the performance pointers of all volumes", "a performance shared by two volumes AND an orphan performance, so the orphan check never fires"),
 "C03-a": ("C03", "cdda/image.py: track start taken from INDEX 01 instead of the first INDEX line", "a track with INDEX 00 and INDEX 01 at different times"),
 "C05-a": ("C05", "structural.py combine_stereo_routine: taken names computed once, names of earlier merged pairs not recorded", "two L/R pairs with the same stem but different separators in one directory"),
 "C07-a": ("C07", "akai/sat.py: joining an already resolved chain appends the join sector to the link list (install marks it end of chain)", "fragmented chain whose head is above a later sector and which joins before the chain's last sector"),
 "C08-a": ("C08", "util/sector.py: middle sectors of a multi-sector read fetched with one contiguous substream read", "one read touching >= 4 sectors of a non-contiguous chain or of a raw-sector view"),
 "C10-a": ("C10", "structural.py sanitize_names_general: generated-name set reset per duplicate group", "two duplicate groups whose counted names coincide ('KICK L' x2 and 'KICK -L' x2)"),
 "C12-a": ("C12", "transcoder.py: pass-through chosen before buffer sizes are computed, default 4096-byte block", "single little-endian stream with a frame size that does not divide 4096 (3 or 5 channels) and more than one block of data"),
 "C16-a": ("C16", "actions.py ls_action: routines dict without make_export_names", "an ls on the opened image object before the first export, and a name whose export name differs from the raw name"),
 "C01-b": ("C01", "akai/sat.py: early break for free entries placed before the 'reserved run ended' branch", "directory stored as a reserved-flag run of >= 2 sectors with > 341 table entries, followed by a free SAT entry"),
 "C02-b": ("C02", "roland fat.py: a walk reaching a cluster visited by an earlier pass links its prefix onto it (install marks the joined cluster end of chain)", "chain whose head has a higher number than a later non-final cluster"),
 "C05-b": ("C05", "structural.py + generalized/wav.py: '.wav' set with Path.with_suffix instead of appended", "export name or stereo stem containing a period (legal in the AKAI alphabet)"),
 "C06-b": ("C06", "structural.py ExportManager: directory prefix cached by the STORED path", "two sibling directories with the same stored name, each holding a sample with the same export name"),
 "C07-b": ("C07", "roland fat.py: loop detection through the table-wide dirty flags instead of a per-walk set", "fragmented Roland chain containing a cluster numbered below its first cluster: a well-formed table is refused"),
 "C08-b": ("C08", "util/stream.py seek: position assigned before the substream seek", "a rejected misaligned seek on a reversed view followed by further use of the view"),
 "C09-b": ("C09", "actions.py attempt_parse_cue_sheet: CDDA test became 'some track is AUDIO' and runs first", "mixed-mode cue sheet: a data track plus audio tracks"),
 "C10-b": ("C10", "base.py safe_name: empty sanitised name treated as unset (falls back to the raw name)", "a name made only of discarded characters that contains a separator, e.g. cue TITLE '/'"),
 "C12-b": ("C12", "transcoder.py make_transcoder: stale num_channels when expanding the swap flags", ">= 2 streams with different channel counts and mixed byte order"),
 "C13-b": ("C13", "roland fat.py: loop recognised only when the walk returns to its start cluster", "FAT chain whose non-first cluster links back to a non-first cluster or to itself (rho shape)"),
 "C14-b": ("C14", "roland partial_entry.py: unparsable sample slot breaks the slot loop instead of continuing", "partial with >= 2 used slots, damaged sample before another used slot"),
 "C15-b": ("C15", "akai/volume.py: SectorReadError ends the scan of the volume's entries", "truncated image, cut inside the header of a file listed BEFORE a file that lies wholly before the cut"),
 "C16-b": ("C16", "akai/sample.py: seek(0) without SEEK_SET (StreamWrapper.seek defaults to SEEK_CUR)", "the same opened AKAI image exported more than once"),
 "C20-b": ("C20", "akai/sample.py: scan of the loop table stops at the first zero-duration slot", "loop table with a gap: an unused slot followed by an active one"),
 "C01-c": ("C01", "akai/sat.py: join of an earlier-resolved chain through links.append(join) (install terminates the joined sector)", "head not lowest sector AND the joined sector is not the chain's last"),
 "C02-c": ("C02", "roland volume_entry.py: orphan scan limited to the first num_performances directory slots", "an orphan performance stored at a directory index >= the number of performances (free slots below it)"),
 "C03-b": ("C03", "cdda/image.py: the no-op combine_stereo_routine override deleted", "two CDDA titles forming an L/R name pair: tracks are fused into a 4-channel sample and the export aborts"),
 "C04-b": ("C04", "structural.py ExportManager: export_wav wrapped in try/except without continue", "a sample whose WAV encoding raises (low root key + large negative tuning): a 4-byte stub is reported as exported"),
 "C07-c": ("C07", "akai/sat.py: the 'free / visited' branch tested before the 'reserved run ended' branch", "a directory run followed by a free sector, or by a sector of an already resolved chain"),
 "C11-b": ("C11", "util/fat.py get_path memoised per start sector + roland fat.py get_file trimming the list in place", "Roland sample with cluster_top > 0 whose chain is requested a second time (another performance realised lazily) while the first stream is in use"),
 "C13-c": ("C13", "akai/partition.py: size <= 0 guard replaced by a stream-position comparison with < instead of <=", "partition size word exactly 0 with an intact header: the scan re-parses the same header forever"),
 "C14-c": ("C14", "akai/sat.py: get_segment memoised (lru_cache) so equal start sectors share one stateful stream", "an entry's start field damaged to the volume directory's own start sector: the table scan rewinds"),
 "C16-c": ("C16", "structural.py make_export_name memoised by raw name only (is_file forgotten)", "a directory and a file of different branches with the same raw name ending in '-', and an ls into the later branch before the export"),
 "C17-b": ("C17", "actions.py: set of distinct raw mode tokens instead of per-track lower-cased tests", "all-audio sheet whose TRACK lines spell AUDIO in different letter case"),
 "C18-b": ("C18", "akai_string.py char_ascii_to_akai: str input rstrip()ped", "a text name ending in a blank (the bytes form is unaffected)"),
 "C19-b": ("C19", "filters/common.py: 'digital silence' fast path in the ChickenSys IIR presets checks the input history only", "an all-zero block directly after a zero sample while the feedback tail is still ringing"),
 "C01-d": ("C01", "akai/volume.py: the scan of the 100-slot volume table stops at the first inactive slot", "active volumes that are not packed at the front of the table (a deleted volume before an active one)"),
 "C02-d": ("C02", "roland sample_entry.py: cluster_top added to the first cluster number instead of skipping that many links", "cluster_top > 0 on a chain whose first clusters are not consecutive ascending numbers"),
 "C05-d": ("C05", "structural.py sanitize_names_general: generated-name set created per name group (same change as C06-c, found independently)", "two duplicated names that differ only in the separator before a final L/R"),
 "C07-d": ("C07", "util/sector.py SectorStream._read: middle-sector loop reads a hoisted, never advanced sector index", "one read() spanning two or more full middle sectors"),
 "C11-c": ("C11", "util/stream.py StreamWrapper.read: tell()/re-seek of the parent skipped when the read starts where this wrapper's last block ended", "two offset windows directly on the shared handle (CDDA tracks) read in alternating blocks"),
 "C13-d": ("C13", "cdda/image.py from_bin_cue: index loop whose counter advances only when both tracks have an INDEX", "an all-AUDIO cue sheet with a track that has no parsable INDEX line"),
 "C14-d": ("C14", "akai/volume.py _realize_files: 'file is not None' guard dropped; FileConstruct yields None for known types without a parser", "a type byte damaged to exactly 0x64, 0x71 or 0x78"),
 "C15-d": ("C15", "akai/file_entry.py is_table_end: raw read(2) lets SectorReadError escape", "a truncated image whose directory sector lies behind sample data, cut before the end of that directory"),
 "C16-d": ("C16", "akai/sample.py: active loops kept as a one-pass filter() iterator (same change as C20-c, found independently)", "two operations touching one looped sample on the same opened image"),
 "C18-c": ("C18", "akai/data_types.py build_akai_tune_cents: cents folded with (x - X1) % 100 + X1", "tuning byte 0x7F (+50.0 cents) re-encodes as 0x80"),
 "C01-e": ("C01", "structural.py combine_stereo_routine: 'pairs.reverse' without call parentheses - the halves stay in directory order", "an L/R pair whose -R entry precedes its -L entry in the file table"),
 "C02-e": ("C02", "roland fat.py get_file: cache of cluster lists keyed by the first cluster only, cluster_top applied on the cache miss", "two samples sharing one cluster chain with different cluster_top"),
 "C05-e": ("C05", "transcoder.py decode_frame: chunk trimmed to the DESTINATION frame size", "a merged L/R pair with an odd number of frames (last frame of both channels lost)"),
 "C07-e": ("C07", "util/fat.py get_path: class-level cache start sector -> chain, shared by every table in the process", "a second table with a different chain starting at an already resolved sector"),
 "C11-d": ("C11", "util/sector.py _read_sector: one-entry sector cache declared in the class body, keyed by the address in the parent stream", "two partitions: back-to-back fetches of the same partition-relative sector by streams of different partitions"),
 "C13-e": ("C13", "transcoder.py PassthroughTranscoder: a block of zeros instead of StopIteration on SectorReadError (the cursor never passes the bad sector)", "export of a truncated image with a mono sample whose chain runs into the missing part: memory without bound"),
 "C14-e": ("C14", "roland fat.py get_file: chain re-walked from sector_list[cluster_offset] (IndexError for an out-of-chain cluster_top, swallowed one level up)", "a sample's cluster_top damaged to a value beyond its chain, a sibling referenced by the same partial only"),
 "C15-e": ("C15", "transcoder.py: SectorReadError caught per stream in decode_frame (break) - the failing channel is missing instead of empty", "a truncated image, cut inside the data of the second stream of an L/R pair"),
 "C16-e": ("C16", "structural.py Traversable.set_routines resets _children (a stale _elem_parent in the shared parse context re-parents re-parsed performances)", "a Roland image object reused: export after an operation that realised a performance's patches"),
 "C18-d": ("C18", "akai_string.py _char_format_convert_byte: 'if not resulting_symbol' - code 0x00 (the digit '0') counts as no mapping", "encoding the digit '0' (ASCII to AKAI)"),
 "C03-d": ("C03", "actions.py parse_text_file: readlines(0x2000) - the text probe returns only the first 8 KiB of lines", "a cue sheet longer than 8 KiB (about 70 tracks with TITLE and two INDEX lines)"),
 "C04-d": ("C04", "generalized/wav.py: a single little-endian mono stream is copied in 64 KiB blocks instead of going through the transcoder (no whole-frame trim)", "a mono sample whose file-table entry size ends inside a 16-bit word of the data"),
 "C06-d": ("C06", "structural.py make_export_name: the blanks before a dropped trailing dot are no longer stripped", "a directory-level name with a blank before a trailing dot ('DRUMS .')"),
 "C08-d": ("C08", "util/fat.py FileStream: 'contiguous' fast path when last - first == len - 1", "a chain of >= 3 sectors with the end points of a run but permuted / foreign interior ([2,4,3,5], [1,5,3])"),
 "C09-d": ("C09", "akai/partition.py: partition rejected unless tell() == start + size after the body is skipped (wrapper streams clamp seeks at the end)", "an AKAI image ending inside its last partition, delivered as 2352-byte sectors / MDX"),
 "C10-d": ("C10", "cdda/image.py children: naming routines run only when there is more than one track", "a CDDA image with exactly one track whose TITLE contains a separator"),
 "C12-d": ("C12", "transcoder.py get_buffer_sizes: each stream's block sized from its own frame size", ">= 2 source streams with different frame sizes, longer than one 4096-byte block"),
 "C17-d": ("C17", "actions.py parse_text_file: readlines(0x8000) - the text probe returns only the first 32 KiB of lines", "more than 32 KiB of cosmetic lines in front of a meaningful line"),
 "C19-d": ("C19", "filters/common.py ChickSysRolandDeemphFilter.process slices blocks longer than 4096 samples; a last slice < 18 samples collapses the FIR history", "one block of more than 4096 samples whose length mod 4096 is 1..17"),
 "C20-d": ("C20", "akai/akai_string.py AkaiPaddedString: an extra NullStripped(0x00) - but code 0x00 is the digit '0'", "a 12-character name ending in the digit 0"),
 "C03-c": ("C03", "cuesheet.py: sector position computed through float seconds, int(75 * total_seconds)", "index times whose frame value hits a float rounding case (about 5% of MM:SS:FF, e.g. 00:00:55)"),
 "C04-c": ("C04", "generalized/wav.py export_wav: file opened without truncation (os.open without O_TRUNC)", "re-export into a directory that already holds a longer file of the same name"),
 "C05-c": ("C05", "rewind moved from to_generalized into export_wav, which rewinds only data_streams[0]", "an AKAI L/R pair exported a second time from the same opened image: channel 1 empty"),
 "C06-c": ("C06", "structural.py sanitize_names_general: generated-name set reset per group (filed against C06)", "two duplicate groups whose counted names coincide, at a level without pairing (CDDA titles)"),
 "C08-c": ("C08", "util/stream.py: true_size initialised to 0 and no longer reset in seek()", "a seek on a reversed view after a read (stale size enters the address translation)"),
 "C09-c": ("C09", "actions.py: cue probe only when the file name ends in lower-case '.cue'", "an image delivered through a cue sheet named IMAGE.CUE / disc.cue.txt"),
 "C10-c": ("C10", "structural.py parse_path: outer strip of the path removed", "a trailing separator followed by blanks ('name/ ')"),
 "C12-c": ("C12", "transcoder.py: output swap 'cancelled' against the input swap whenever any input needs swapping", "big-endian host (patched), >= 2 streams with different byte orders, width > 1"),
 "C15-c": ("C15", "roland fat.py: data stream sized with DATA_AREA_OFFSET instead of DATA_FAT_OFFSET", "Roland image whose sample data lies within the last two clusters of the file"),
 "C17-c": ("C17", "cuesheet.py get_nonempty_entry: blank test on rstrip('\\r\\n'), returns strip()", "a whitespace-only line inside a track or between FILE and TRACK"),
 "C19-c": ("C19", "filters/common.py: FIR presets override reset_state and re-prime with N-1 zeros instead of m1", "a FIR preset with a non-zero delay offset reused after reset_state() or a flush"),
 "C20-c": ("C20", "akai/sample.py: active loops kept as a one-pass filter() iterator on the cached sample", "a second listing of the same sample on the same opened image"),
 "C04-a": ("C04", "transcoder.py PassthroughTranscoder: ragged tail trimmed to a whole sample instead of a whole frame", "CDDA last track whose window ends 2-3 bytes past a stereo-frame boundary"),
 "C06-a": ("C06", "structural.py combine_stereo_routine: taken names hoisted out of the loop", "two complete L/R pairs with one stem and different separators in one directory"),
 "C09-a": ("C09", "alcohol/mdx.py: MDX payload size floored to a multiple of 2048", "MDX container, image size not a multiple of 2048, live sample data in the last partial sector"),
 "C11-a": ("C11", "util/sector.py: parent seek skipped when a sector read starts where this stream's previous sector read ended", "a read ending exactly on a sector boundary, the next sector physically adjacent, and another stream of the image read in between"),
 "C13-a": ("C13", "akai/image.py _load_partitions: ConstructError continues the scan instead of ending it", "a partition header whose size word is 0 (the Lazy skip rewinds to the header start): endless re-parse"),
 "C14-a": ("C14", "akai/file_entry.py: next entry boundary computed from where the failed parse stopped", "start-sector field damaged to a value outside the SAT (failure after the whole entry was consumed) on an entry that is not the last"),
 "C15-a": ("C15", "util/sector.py: short sector reads are returned instead of raising SectorReadError", "truncated image, non-monotonic chain, cut inside the physically later sector"),
 "C17-a": ("C17", "cuesheet.py: next-track test peeks lines[0] without skipping blank lines", "a blank line directly before the TRACK line of a second or later track"),
 "C18-a": ("C18", "midi.py: note decoding through a 256-entry table indexed by the A0-relative number", "note bytes below 21 (negative index wraps)"),
 "C19-a": ("C19", "filters/common.py: CdXtract taps built as float32", "CdXtract preset fed in >= 2 blocks; a later-block sample whose exact value lies within 1e-3 of an integer"),
 "C20-a": ("C20", "akai/program.py _has_next_keygroup: seek skipped when the link equals first_address*(index+2)", "keygroups in standard 150-byte slots visited in permuted order starting in the first slot"),
}


HISTORY = {
 "C12-a": "missed by the first version of C12 (real-block cases had no single 3/5-channel interleaved stream); caught after adding frame sizes that do not divide 4096",
 "C03-a": "missed by the first version of C03 (Cue.tla put INDEX 00 and INDEX 01 at the same time); caught after the pregap index got its own earlier time",
 "C20-a": "missed by the first version of C20 (keygroups at random gapped addresses only); caught after adding standard 150-byte slots visited in permuted order",
 "C06-a": "missed by the first version of C06 (quick tier stopped at 3 siblings); caught after adding the 4-sibling pools to the quick tier",
 "C09-a": "missed by the first version of C09 (no live data in the last partial 2048-byte sector); caught after adding images trimmed right behind their last used byte",
 "C11-a": "missed by the first version of C11 (no contiguous side-by-side files, no reads aimed at sector boundaries, tiny behaviours not replayed); caught after adding contiguous shared-handle configurations whose TLC behaviours are replayed into the real classes, and boundary-aimed reads on real images",
 "C06-b": "missed by the first version of C06 (every generated directory held a differently named sample); caught after directories got a child of the same name",
 "C09-b": "missed by the first version of C09 (cue sheets had a single data track); caught after adding mixed-mode cue sheets (data + audio tracks) to the container set",
 "C10-b": "missed by the first version of C10 (no pool name that sanitises to nothing AND contains a separator); caught after adding '/', '*\\*', '?/?' to the pools",
 "C20-b": "first run ended with exit 2: the binding self-test used the first trace line, which the change made invalid; the self-test now picks an accepted line, and the change is reported as a violation",
 "C02-c": "missed by the first version of C02 (records were always stored densely at indices 0..n-1); caught after RolandImage.tla got the 'spread' layout (records at index k+4)",
 "C03-b": "missed by C03 (plain titles) and by the first quick tier of C06 (no complete L/R title pair in the CDDA pool slice); caught after adding the L/R title pool to C06's quick tier",
 "C04-b": "missed by the first version of C04 (failing header values went only through the WAV builder directly); caught after images with a failing sample are exported through the real export",
 "C11-b": "missed by the first version of C11 (no second request for a chain during a schedule); caught after the Roland target lists other performances sharing samples, preferring cluster_top > 0",
 "C16-c": "missed by the first version of C16 (plain names, one partition); caught after the images got a file and a directory of different branches with the same raw name ending in '-'",
 "C19-b": "would have been missed (signals without silence); caught after adding impulse / burst-silence / silence-burst signals",
 "C02-e": "missed by the first version of C02 (RolandImage.tla required the chains of different samples to be disjoint); caught after NewSharedSample (a sample in an earlier sample's chain behind a different leading-cluster offset) and a vacuity guard",
 "C13-e": "missed by the first version of C13 for two reasons: no truncated images among the damaged inputs, and the probe swallowed MemoryError as an ordinary error of the tool; caught after truncations of the base images and of a four-sector mono sample were added and MemoryError propagates to the resource verdict",
 "C18-d": "first run ended with exit 2 (the harness did not expect InvalidCharacter when encoding a valid character back); exceptions of the tool are verdicts now",
 "C03-d": "missed by the first version of C03 (sheets of at most 3 tracks, a few hundred bytes); caught after the 99-track sheet and sheets with 200 / 2500 remarks were added (Cue.tla Dense / Repeats, evaluated by TLC with a deep Java stack)",
 "C17-d": "missed by the first version of C17 for the same reason as C03-d; caught by the same long sheets (check_image goes through the tool's own text probe)",
 "C04-d": "missed by the first version of C04 (every generated entry size is header + 2 x words); caught after entries whose size ends inside a 16-bit word were added",
 "C06-d": "missed by the first version of C06 (no pool name with a blank before a trailing dot); caught after 'A .' / 'A  .' joined the pools and every lone name is replayed at every level",
 "C10-d": "missed by the quick tier of C10 (one-item directories were strided away); caught after naming.pick keeps every lone name and shuffles the rest by seed",
 "C19-d": "missed by the first version of C19 (blocks of at most 196 samples); caught after blocks just past 1024 / 4096 / 65536 samples were added",
 "C08-d": "caught only once by the first version (medium chain [1,8,3]); tiny configurations [0,2,1,3], [1,5,3], [0,1,2,3] added so that the complete state graph meets it",
 "C15-b": "missed by the first version of C15 (quick tier strided the cuts and picked images whose directory order equals allocation order); caught after all structure-interior cuts are kept and inversion-heavy images are selected; MISSED AGAIN after the AKAI generator learned programs and unknown-type files (no sample-before-sample inversion among 457 simulated images any more) - caught after AkaiImage.tla got the Inverted layouts (directory order reversed against allocation order) and a vacuity guard",
 "C14-d": "missed by the quick tier of C14 (type byte took 14 class values, none of them a known type without a parser); caught after the type byte of one entry is swept over all 256 values and the others over every known type code +-1, unstrided",
 "C03-c": "missed by the first version of C03 (index times only with frames 0, 1, 74); caught after a sweep of all frame values 0..74 on one-track sheets",
 "C04-c": "missed by the first version of C04 (every export went into a fresh directory); caught after a re-export scenario into a directory holding longer files of the same names",
 "C05-c": "not a C05 matter on a first export; caught by C16 (history [export, export] on an image with an L/R pair)",
 "C06-c": "missed by the first quick tier of C06 (CDDA targeted pool stopped at 3 siblings; AKAI/Roland lose the sample through pairing instead, which is C05's clause); caught after the CDDA pool got 4 siblings and collision-rich sequences are replayed unstrided",
 "C09-c": "missed by the first version of C09 (cue files were always named *.cue); caught after cue sheets named XR.CUE / xm.cue.txt were added",
 "C10-c": "missed by the first version of C10 (no blanks after a trailing separator); caught after those spellings were added",
 "C19-c": "missed by the first version of C19 (reset/reuse was only tested on the small model filters); caught after presets are reused after reset_state() and after a flushed run",
 "C20-c": "not visible to a single listing; caught by C16 after its AKAI leaf target got active loops (history [ls leaf, ls leaf])",
 "C08-a": "caught marginally (3 behaviours) at first; a 5-sector scattered chain was added to the exhaustive depth-2 configurations",
}


def main():
    rows = []
    for sid in sorted(os.listdir(os.path.join(ROOT, "seeded"))):
        d = os.path.join(ROOT, "seeded", sid)
        if not os.path.isdir(d) or sid not in TABLE:
            continue
        prop, what, needs = TABLE[sid]
        res = json.load(open(os.path.join(d, "results.json"))) if os.path.exists(os.path.join(d, "results.json")) else {}
        meta = {"id": sid, "breaks_property": prop, "change": what, "needs_to_manifest": needs,
                "origin": "written by an independent sub-agent given only the property text and a scratch worktree",
                "confirmed": "tools/intake_seeded.sh: 62 baseline tests pass with the change; demo.py exits 1 with it and 0 without it",
                "history": HISTORY.get(sid, "caught by the check as first built"),
                "checks_run": {k: v for k, v in res.items() if k != "baseline_tests"}, "baseline_tests_with_change": res.get("baseline_tests", "")}
        json.dump(meta, open(os.path.join(d, "meta.json"), "w"), indent=1)
        for c, r in meta["checks_run"].items():
            rows.append((sid, prop, what, needs, c, r.get("tier", "quick"), "CAUGHT" if r["rc"] == 1 else ("missed" if r["rc"] == 0 else f"rc={r['rc']}"), r["violations"]))
    with open(os.path.join(ROOT, "seeded", "MATRIX.md"), "w") as fh:
        fh.write("# Seeded breaking changes vs checks\n\nEach row: a change that breaks a property while the 62 repository tests still pass, and what the named check reports "
                 "with the change applied to /repo (`tools/eval_seeded.py`).\n\n| change | property | what | needs | check | tier | verdict | violations |\n|---|---|---|---|---|---|---|---|\n")
        for r in rows:
            fh.write("| " + " | ".join(str(x) for x in r) + " |\n")
    print(f"{len(rows)} rows")


if __name__ == "__main__":
    main()
